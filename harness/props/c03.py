"""C03 — per-frame TP/FP/FN/TN accounting conserves objects.

Tie to the code: frames of REAL 3-D `DynamicObject`s go through the REAL
`PerceptionEvaluationManager.add_frame_result` (manager filter -> matcher -> critical filter ->
`PassFailResult.evaluate`), in the BASE_LINK and in the MAP frame with an arbitrary ego pose.  The Lean
model (`PEval.Model.PassFail.evaluateFrame`) receives, per frame, the matcher's actual pairing (ids and
the real plane-distance scores, exactly) and - computed INDEPENDENTLY by this module from the
ego-relative geometry of the case, in exact rationals - the critical flag of every object, the list
of ground truths passing the manager filter, label compatibility under the policy, the pass/fail
threshold of the ground truth's label and the `__eq__` class of every ground truth.  Compared: the
four lists (by id, as multisets: C03 is a counting statement and orders none of them), the filtered `object_results` /
`frame_ground_truth.objects`, `get_num_success()` / `get_num_fail()`.

Only public names of /repo are used: the manager is built with `dataset_paths=[]` (no dataset, no sample data of /repo), the
matcher's output before the critical filter is obtained with `filter_objects(**manager.filtering_params)` +
`get_object_results(...)` on the manager's public configuration; a new manager per case (no cache).  Set-up runs outside the
`try` of `run_impl`: only `add_frame_result` can produce `out["err"]`.

Composed model (a third of the generated cases and the whole corpus, `case["pipe"]`): the WHOLE frame is
additionally handed to `PEval.Pipeline.detectFrame` (matcher -> critical filter + pass/fail -> per-label
metrics): the lists that reach the matcher, the real center-distance score table (every cell, exactly), for
every pair the real plane distance / four matching values / heading weight, the critical flags, the
thresholds and the `Map` configurations.  Compared end to end with what `add_frame_result` returned: the
matcher's pairs by id, the four lists, `get_num_success/fail`, and every per-label AP / APH, tp/fp lists,
mAP / mAPH of `metrics_score.maps` (1e-9).  Nothing of the matcher's real output enters that model run
except the per-pair scores of the pairs it made.

Critical flags COMPUTED by the model (every frame of every case, op 'critframe', `PEval.CritFrame.evaluateFrameWith wiring`):
the model receives the objects with the very positions and frame id the real objects carry, the ego pose registered in
`frame_ground_truth.transforms` (cos / sin of the yaw as floats, exactly), the critical filter's `filtering_params` and the
matcher's pairing, applies C10's `_is_target_object` model at BOTH filter call sites of `evaluate_frame` and runs the accounting.
Compared with what `add_frame_result` returned: the four lists, the filtered inputs, the counters; the model also reports whether
the two call sites agreed on every paired ground truth.  (Re-introducing the `transform=` typo in-process makes the real outcome
differ from this model on about half of the MAP frames and coincide with the model's defective wiring `wiringF2` on all of them.)

Oracle (does not use the model): the property's counting identities, exactly-once accounting of every
critical ground truth, TP soundness recomputed from the real scores, critical-region membership of
every counted object recomputed in the ego frame, and stability of earlier frames of the history.  The
identities are evaluated whenever the ground truths of the frame are pairwise distinct (exact comparison of the
case's coordinates), which includes near-duplicate 'twin' ground truths a fraction of a metre apart in scenes
~1e5 m from the map origin (`_gen_twin_case`, corpus): distinct objects stay distinct at any magnitude.

Numeric types (`_nt`, `_decorate`, `_gen_typed_case`): every numeric field of a case (object position / size / velocity /
score / yaw / point count, ego translation and yaw, the bounds, confidence and point-number lists of the manager's and the
critical filter, pass/fail and matching thresholds, matchable radii) can be handed to the real code as Python int, numpy
int64 / int32, numpy float32 or float64 instead of a Python float - only where the conversion is exact, so the case, the
independent reference and the model requests are the same mathematical objects whatever the letters say.  A quarter of
the ordinary cases carry such letters; a further family draws scenes on the integer (1/2, 1/8) grid of the frame the
objects are expressed in - for MAP scenes under an ego pose that is not on the grid - and moves a critical bound strictly
between one object's true ego-relative coordinate (distance) and that coordinate rounded to a neighbouring integer.
"""
from __future__ import annotations

import copy
import math
import os
import tempfile
from fractions import Fraction
from typing import Any, Dict, List, Optional, Tuple

# the evaluated code multiplies 4x4 matrices; multi-threaded BLAS only adds contention (3x wall time on a
# loaded machine). Must be set before numpy is first imported (run_check imports this module first).
for _v in ("OMP_NUM_THREADS", "OPENBLAS_NUM_THREADS", "MKL_NUM_THREADS"):
    os.environ.setdefault(_v, "1")

from .. import core  # noqa: E402

PROP = "C03"
EXHAUSTIVE = False
THEOREMS = [
    "PEval.C03." + t
    for t in [
        "tp_fp_partition", "tp_fp_exactly_one", "tp_sound", "tp_complete", "gt_accounting_perm",
        "list_label_kinds", "gtsOf_length_tp", "gt_conservation_ordinary", "gt_conservation_fp_label",
        "critical_only", "pipeline_wf", "frame_conservation", "history_conservation",
        "num_success_def", "num_fail_def", "num_total", "dup_gt_breaks_conservation",
        # critical region on objects with positions / frame ids / transforms, both filter call sites modelled separately
        # (PEval/Model/CriticalFrame.lean, PEval/Properties/C03Critical.lean); f2_* / gt_conf_* are the refutations for the
        # defective wirings and the necessity of the ground-truth confidence hypothesis
        "critical_sound", "counted_range", "critical_sites_agree", "critical_refines", "critical_matcher_wf",
        "critical_conservation", "critical_accounting_perm", "critical_num_total", "evaluateFrame_toMap",
        "critical_frame_free", "egoRel_toMap", "f2_not_critical_sound", "f2_sites_disagree", "f2_breaks_conservation",
        "f2_not_frame_free", "f2gt_not_critical_sound", "f2gt_not_frame_free", "gt_conf_needed", "gt_conf_needed_conservation",
    ]
] + [
    # composition with the matcher model (PEval/Properties/Pipeline.lean): C01's guarantees discharge MatcherWF
    "PEval.PipelineProps." + t
    for t in [
        "matcher_output_wf", "pipeline_same_lists", "pipeline_label_ok_agrees", "pipeline_conservation", "pipeline_accounting_perm",
        "pipeline_num_total", "pipeline_tp_fp_exactly_one", "pipeline_history_conservation",
        # TP soundness on the pipeline's inputs (threshold = entry of the pass/fail list at the index of the GROUND TRUTH's label),
        # its refutation for the estimate-label keying, and the label choice of get_negative_objects
        "detectFrameWith_gtLabel", "pipeline_tp_sound", "pipeline_tp_sound_detectFrame", "estLabel_not_tp_sound",
        "toPFResNeg_paired", "negative_label_choice",
    ]
] + (
    # decision tables of is_label_correct / is_result_correct / get_status, regenerated from the source on every run
    ["PEval.KernelStatus.labelCorrect_table_check", "PEval.KernelStatus.resultCorrect_table_check", "PEval.KernelStatus.status_table_check", "PEval.KernelStatus.labelCorrect_code_table_eq_model", "PEval.KernelStatus.resultCorrect_code_table_eq_model", "PEval.KernelStatus.status_code_table_eq_model", "PEval.KernelStatus.resultCorrect_eq_skeleton", "PEval.KernelStatus.status_eq_skeleton", "PEval.KernelStatus.resultCorrect_eq_skeleton_passfail", "PEval.KernelStatus.status_eq_skeleton_passfail", "PEval.KernelStatus.labelCorrect_code_table_eq_isLabelCorrect", "PEval.KernelStatus.resultCorrect_code_table_eq_isResultCorrect", "PEval.KernelStatus.status_code_table_eq_getStatus", "PEval.KernelStatus.resultCorrect_code_table_eq_passfail", "PEval.KernelStatus.status_code_table_eq_passfail", "PEval.KernelStatus.table_status_tp_sound", "PEval.KernelStatus.table_status_no_gt", "PEval.MatchKernels.valAP_consistent", "PEval.MatchKernels.valPF_consistent"]
)
RULE = (
    "seeded histories of 1..6 frames; per frame 0..8 ground truths (car/bicycle/pedestrian/motorbike/unknown/FP-labelled) "
    "and 0..8 estimates (perturbed copies of ground truths + strays; labels kept, swapped or unknown) placed around the "
    "filter boundaries on a 1/8 grid; ego pose yaw+translation; BASE_LINK and MAP rendering; manager filter and per-frame "
    "critical filter as x/y box or distance ring with per-label bounds (bounds on the object grid in BASE_LINK so exact "
    "ties occur, off-grid in MAP); pass/fail thresholds per label, absent, or for all labels incl. FP; 3 label policies; "
    "detection and FP validation; plus a family of 'twin' ground truths (same label/orientation/height/time, planar offset "
    "1/1024..1 m, mostly 0.2..1 m; one matched / both unmatched / both matched / matched-but-failing; ordinary and FP-labelled) "
    "placed clear of the bounds inside both regions, in BASE_LINK and in MAP scenes with ego translations up to 1.2e5 m on both axes. "
    "Numeric type variants: a quarter of these cases, 40% of the managers and a separate family (240 quick / 1600 thorough, 2/3 MAP) carry "
    "per-number type letters (Python int, numpy int64/int32/float32/float64; honoured only when the conversion is exact) for object "
    "position/size/velocity/score/yaw/points, ego translation/yaw, both filters' bound/confidence/point lists, pass/fail and matching "
    "thresholds, radii; the family draws objects on the integer (1/2, 1/8) grid of their own frame (map coordinates for MAP, ego pose "
    "mostly off the grid with yaw != 0), makes bounds/thresholds integral in a third of the frames and in 3/4 of the frames moves one "
    "critical bound strictly between an object's true ego-relative coordinate (box) or distance (ring) and its value after rounding "
    "the coordinates down / up / to nearest (>= 0.0125 clear of both). "
    "Non-trivial = at least one estimate or ground truth reaches the matcher; distinct = distinct canonical case JSON"
)
TRUSTED = [
    "decision-table translator (harness/dtable.py, harness/dt_match.py): symbolic stubs answer every query of the REAL "
    "is_label_correct / is_result_correct / get_status from the recorded valuation only; a leak marks the table untranslatable",
    "matcher pairing and plane-distance scores are taken from the real code (C01/C02/C06 cover them) through the public functions "
    "filter_objects + get_object_results with the manager's own parameters (the calls add_frame_result documents); the model starts "
    "at the matcher's output (op 'frame'); in the composed run (op 'pipeline') the model matches itself from the real center-distance "
    "table - when it breaks an exact score tie the other way (C02 leaves the winner open) the composed comparison of that frame is "
    "not made and the case is counted as skipped",
    "composed run: confidences are taken from the real objects exactly; the lists reaching the matcher are obtained with the real "
    "filter_objects and the manager's own parameters; matching values / heading weights / Map objects of the metrics are read only "
    "when PIPE_COMPARE_METRICS is on (off: C04's observables are not C03's)",
    "critical / manager filter predicate re-implemented in exact rationals on the ego-relative coordinates of the case "
    "(strict |x|<max_x, |y|<max_y or min<hypot<max per label; unknown-labelled estimates use the mean bound; FP-labelled objects always "
    "pass): 'the critical region' of C03 is read as the filter C10 STATES ('strictly inside the bounds configured for its label ... "
    "false-positive-labelled objects always pass and unknown-labelled estimates are judged against the mean bounds')",
    "ego pose applied by the harness in floats for the MAP rendering (decisions closer than 1e-7 to a bound are skipped)",
    "pyquaternion Quaternion.__eq__ (np.allclose) as orientation equality inside DynamicObject.__eq__",
    "numeric types: int / numpy.int64 / numpy.int32 / numpy.float32 / numpy.float64 conversions of a float are value-preserving when "
    "`float(converted) == original` (checked per number); numpy's comparison and mean of float32 scalars may run in single precision, "
    "so frames holding a float32 keep 1e-3 (instead of 1e-7) clear of every bound",
    "scenes fixed in map coordinates (`mx`, `my`): the ego-relative coordinates the reference decides on are the inverse ego pose applied "
    "in floats (error ~1e-12 m, far below the 1e-7 skip margin)",
]
ASSUMPTIONS = [
    "ground truths of a frame are a set: no two equal under DynamicObject.__eq__ (time, label, position, orientation); "
    "duplicates are generated on purpose with low probability, compared with the model, and excluded from the conservation oracle; "
    "ground truths that differ in position by any representable amount (the twin family: millimetres to 1 m, coordinates up to 1e5 m) "
    "are distinct and inside the domain",
    "3-D evaluation (PLANEDISTANCE pass/fail score); 2-D ROI-less branch not covered",
    "critical filter options target_uuids / ignore_attributes left None; ground-truth confidence is 1.0 and confidence thresholds < 1",
    "detection task: critical target labels cover the manager's target labels (otherwise Map() raises KeyError before pass/fail runs)",
    "FP-labelled ground truths are exempt from every range bound by _is_target_object (returns True first): they are "
    "'critical' wherever they are; the oracle's region test applies to estimates and ordinary ground truths",
    "ego poses are yaw + translation",
    "positions / sizes / velocities are tuples of real numbers (the documented container); numpy arrays as `position` are outside the "
    "domain: DynamicObject.__eq__ raises ValueError on them in the unchanged code (64 of 76 corpus scenes)",
]

EST_LABELS = ["car", "bicycle", "pedestrian", "motorbike", "unknown"]
GT_LABELS = EST_LABELS + ["FP"]
POLICIES = ["default", "allow_unknown", "allow_any"]
NEAR = 1e-7
# label numbers of the AP model (0 unknown, 1 false_positive) and the enum values the matcher model reads
LID = {"unknown": 0, "FP": 1, "car": 2, "bicycle": 3, "pedestrian": 4, "motorbike": 5}
ENUMVAL = {"FP": "false_positive"}
# the composed run also compares the per-label AP / APH / mAP / mAPH of metrics_score.maps (C04's observables, produced by
# the same add_frame_result call). False restricts the end-to-end comparison to the matcher's pairs and the four lists.
PIPE_COMPARE_METRICS = False
MODE_NAMES = {"CENTERDISTANCE": "center", "PLANEDISTANCE": "plane", "IOU2D": "iou2d", "IOU3D": "iou3d"}
# `_is_target_object` returns True for every FP-labelled object before looking at any bound, in the manager
# filter and in the critical filter alike: an FP-labelled ground truth 150 m away is counted TN under a 30 m
# critical box (corpus case "fp-label-exempt").  The model's critical flag follows the code (the predicate is
# abstract there); the oracle applies the region test to estimates and ordinary ground truths only.  Set to
# True to make the oracle read "no ground truth outside the critical region is counted" literally: an
# FP-labelled ground truth beyond the most lenient per-label bound that is counted is then a failure.
STRICT_FP_REGION = False


# =============================================================================== real-code builders

_LAB = None
STATS: Dict[str, int] = __import__("collections").Counter()
_TMP = None


def _labels():
    global _LAB
    if _LAB is None:
        from perception_eval.common.label import AutowareLabel

        _LAB = {
            "car": AutowareLabel.CAR, "bicycle": AutowareLabel.BICYCLE, "pedestrian": AutowareLabel.PEDESTRIAN,
            "motorbike": AutowareLabel.MOTORBIKE, "unknown": AutowareLabel.UNKNOWN, "FP": AutowareLabel.FP,
        }
    return _LAB


def _all_label_names() -> List[str]:
    """names (ours where we have one, else the enum value) of every AutowareLabel in definition order"""
    from perception_eval.common.label import AutowareLabel

    inv = {v: k for k, v in _labels().items()}
    return [inv.get(l, l.value) for l in AutowareLabel]


def _tmp_root() -> str:
    """ONE scratch directory per process for `result_root_directory` (removed at exit)"""
    global _TMP
    if _TMP is None:
        import atexit
        import shutil

        _TMP = tempfile.mkdtemp(prefix="c03_")
        atexit.register(shutil.rmtree, _TMP, True)
    return _TMP


def _manager(case):
    """a NEW real manager for the case (task, frame, policy, manager filter).  No cache, no dataset: `dataset_paths=[]` makes
    the (public) constructor load nothing - the frames are generated by the case - so a replayed case takes exactly the path
    it took in the full run and nothing depends on /repo's bundled sample data.  Failures here are set-up failures of the
    harness and propagate to the runner (infrastructure), they are not a verdict on C03."""
    import logging
    import warnings

    warnings.filterwarnings("ignore")
    logging.disable(logging.CRITICAL)
    from perception_eval.config import PerceptionEvaluationConfig
    from perception_eval.manager import PerceptionEvaluationManager

    mg = case["mgr"]
    n = len(mg["labels"])
    d = {
        "evaluation_task": case["task"], "target_labels": list(mg["labels"]), "label_prefix": "autoware",
        "merge_similar_labels": False, "matching_label_policy": case["policy"],
        "center_distance_thresholds": [_nt_list([1.0] * n, _tag(mg, "thr"))], "plane_distance_thresholds": [_nt_list([2.0] * n, _tag(mg, "thr"))],
        "iou_2d_thresholds": [[0.5] * n], "iou_3d_thresholds": [[0.5] * n],
        "min_point_numbers": _nt_list(mg["min_points"], _tag(mg, "mp").replace("f", "i")) if mg["min_points"] is not None
        else ([0] * n if case["task"] == "detection" else None),
    }
    if mg["mode"] == "box":
        d["max_x_position"] = _nt_list(mg["a"], _tag(mg, "a"))
        d["max_y_position"] = _nt_list(mg["b"], _tag(mg, "b"))
    else:
        d["max_distance"] = _nt_list(mg["a"], _tag(mg, "a"))
        d["min_distance"] = _nt_list(mg["b"], _tag(mg, "b"))
    if mg.get("conf") is not None:
        d["confidence_threshold"] = _nt(mg["conf"], _tag(mg, "conf"))
    if mg.get("radii") is not None:
        d["max_matchable_radii"] = _nt(mg["radii"], _tag(mg, "radii"))
    cfg = PerceptionEvaluationConfig(
        dataset_paths=[], frame_id=case["frame"], result_root_directory=_tmp_root(), evaluation_config_dict=d,
    )
    m = PerceptionEvaluationManager(cfg)
    try:  # the manager's visualizer opens a matplotlib figure that is never drawn here: release it
        import matplotlib.pyplot as plt

        plt.close("all")
    except Exception:  # noqa: BLE001 - housekeeping only
        pass
    return cfg, m


# ---- numeric type variants ---------------------------------------------------------------------------------
# The library's signatures say `float`, and (PEP 484) an int is acceptable wherever a float is; numpy scalars
# are `numbers.Real` (what `check_thresholds` asks of a threshold).  A case may therefore carry, next to every
# numeric field, the TYPE in which the number is handed to the real code (`"nt"` entries, one letter per number):
#   f  Python float (default)   i  Python int   I  numpy.int64   j  numpy.int32   s  numpy.float32   d  numpy.float64
# A letter is honoured only when the conversion is EXACT (int kinds: the value is integral; float32: the value is
# representable), otherwise the number stays a Python float - so the mathematical content of a case, hence the
# independent reference and the model requests, never depend on the letters.  Containers keep the documented
# shape (position / size / velocity: tuples; bounds and thresholds: lists).  numpy ARRAYS as positions are not
# generated: `DynamicObject.__eq__` (`self.state.position == other.state.position`) raises on them in the
# unchanged code, the documented type is a tuple.
NT_LETTERS = "fiIjsd"


def _nt(v, letter: str):
    """the number `v` in the numeric type named by `letter` if that conversion is exact, else as a float"""
    import numpy as np

    v = float(v)
    if letter in "iIj":
        if v != math.floor(v) or abs(v) >= 2 ** 31:
            return v
        return int(v) if letter == "i" else np.int64(int(v)) if letter == "I" else np.int32(int(v))
    if letter == "s":
        w = np.float32(v)
        return w if float(w) == v else v
    if letter == "d":
        return np.float64(v)
    return v


def _nt_list(vals, letter: Optional[str]):
    return [float(v) for v in vals] if not letter or letter == "f" else [_nt(v, letter) for v in vals]


def _tag(d, key: str, n: int = 1) -> str:
    """the letters of field `key` of the `nt` entry of `d`, padded with 'f'"""
    t = ((d.get("nt") or {}).get(key) or "") if isinstance(d.get("nt"), dict) else ""
    return (t + "f" * n)[:n]


def _position(o, fr, frame: str) -> tuple:
    """the position tuple handed to DynamicObject: ego-relative in BASE_LINK; in MAP the map coordinates the case
    fixes (`mx`, `my`: scenes drawn on a map grid) or else the ego pose applied in floats; typed by nt['p']"""
    x, y, z = float(o["x"]), float(o["y"]), float(o["z"])
    if frame == "map":
        if "mx" in o:
            x, y = float(o["mx"]), float(o["my"])
        else:
            e = fr["ego"]
            c, s = math.cos(e["yaw"]), math.sin(e["yaw"])
            x, y = c * x - s * y + e["tx"], s * x + c * y + e["ty"]
    return tuple(_nt(v, t) for v, t in zip((x, y, z), _tag(o, "p", 3)))


def _ego_pose(e):
    """(translation tuple, yaw) of the ego pose in the numeric types of e['nt'] (letters: tx, ty, z, yaw)"""
    t = (e.get("nt") or "ffff") if isinstance(e.get("nt"), str) else "ffff"
    t = (t + "ffff")[:4]
    return (_nt(e["tx"], t[0]), _nt(e["ty"], t[1]), _nt(0.0, t[2])), _nt(e["yaw"], t[3] if t[3] in "fid" else "f")


def _mk_object(o, is_gt: bool, fr, frame: str, time: int):
    """real DynamicObject from the ego-relative description `o`, rendered in `frame`"""
    from pyquaternion import Quaternion
    from perception_eval.common.label import Label
    from perception_eval.common.object import DynamicObject
    from perception_eval.common.schema import FrameID
    from perception_eval.common.shape import Shape, ShapeType

    lab = _labels()[o["label"]]
    yaw = float(o["yaw"])
    if frame == "map":
        yaw = yaw + fr["ego"]["yaw"]
        fid = FrameID.MAP
    else:
        fid = FrameID.BASE_LINK
    ty = _tag(o, "y")
    size = tuple(_nt(o[k], t) for k, t in zip(("w", "l", "h"), _tag(o, "s", 3)))
    vel = tuple(_nt(0.0, t) for t in _tag(o, "v", 3))
    pts = _nt(int(o.get("pts", 10)), _tag(o, "n").replace("f", "i"))
    return DynamicObject(
        time, fid, _position(o, fr, frame), Quaternion(axis=[0, 0, 1], angle=_nt(yaw, ty if ty in "fid" else "f")),
        Shape(ShapeType.BOUNDING_BOX, size), vel,
        _nt(1.0 if is_gt else o["score"], _tag(o, "c")), Label(lab, "false_positive" if o["label"] == "FP" else o["label"], []),
        uuid=("g" if is_gt else "e") + str(o["id"]), pointcloud_num=pts,
    )


def _oid(obj) -> Optional[int]:
    return None if obj is None else int(obj.uuid[1:])


def _pair(r):
    return [_oid(r.estimated_object), _oid(r.ground_truth_object)]


def _snapshot(res) -> dict:
    p = res.pass_fail_result
    return {
        "results": [_pair(r) for r in res.object_results],
        "gts": [_oid(g) for g in res.frame_ground_truth.objects],
        "tp": [_pair(r) for r in p.tp_object_results],
        "fp": [_pair(r) for r in p.fp_object_results],
        "tn": [_oid(g) for g in p.tn_objects],
        "fn": [_oid(g) for g in p.fn_objects],
        "ns": int(p.get_num_success()),
        "nf": int(p.get_num_fail()),
    }


def _mode_name(mm) -> str:
    return MODE_NAMES[mm.name]


def _fnum(x):
    x = float(x)
    return None if (math.isinf(x) or math.isnan(x)) else x


def _ap_out(a) -> dict:
    return {"ap": _fnum(a.ap), "tp": [float(x) for x in a.tp_list], "fp": [float(x) for x in a.fp_list]}


def _map_out(mp) -> dict:
    return {"mode": _mode_name(mp.matching_mode), "thrs": [float(t) for t in mp.matching_threshold_list],
            "aps": [_ap_out(a) for a in mp.aps], "aphs": [_ap_out(a) for a in mp.aphs],
            "map": _fnum(mp.map), "maph": _fnum(mp.maph)}


def _matcher_output(m, ests, gtf):
    """the matcher's output BEFORE the critical filter, through PUBLIC functions only: the manager's own filter on both lists
    (`filter_objects(**manager.filtering_params)`) and `get_object_results` with the manager's public configuration - the
    very calls `add_frame_result` is documented to make ("First of all, filter `estimated_objects` and `frame_ground_truth`.
    Then generate a list of DynamicObjectResult"), deterministic, so the pairs are those of the evaluated frame.
    Returns (object results, estimates reaching the matcher, ground truths reaching the matcher)."""
    from perception_eval.evaluation.matching.objects_filter import filter_objects
    from perception_eval.evaluation.result.object_result import get_object_results

    fp = m.filtering_params
    in_e = filter_objects(objects=list(ests), is_gt=False, transforms=gtf.transforms, **fp)
    in_g = filter_objects(objects=list(gtf.objects), is_gt=True, transforms=gtf.transforms, **fp)
    pre = get_object_results(
        evaluation_task=m.evaluation_task, estimated_objects=in_e, ground_truth_objects=in_g,
        target_labels=m.target_labels, matching_label_policy=m.evaluator_config.label_params["matching_label_policy"],
        matchable_thresholds=fp.get("max_matchable_radii"), transforms=gtf.transforms,
        uuid_matching_first=fp.get("uuid_matching_first", False),
    )
    return list(pre), in_e, in_g


def _pipe_inputs(m, gtf, pre, in_e, in_g) -> dict:
    """what the composed model needs of one frame: the lists reaching the matcher, the real score table of the
    manager's matcher (center distance, every cell) and, per pair the matcher made, the values later stages read.
    While PIPE_COMPARE_METRICS is off nothing of the metrics objects (C04/C09 territory) is read: the per-mode matching values
    and the heading weight are sent as null / 0 and the composed model is asked for no `Map`."""
    from perception_eval.evaluation.matching.object_matching import CenterDistanceMatching, MatchingMode

    pos_e = {o.uuid: k for k, o in enumerate(in_e)}
    pos_g = {o.uuid: k for k, o in enumerate(in_g)}
    vals = [[core.q(float(CenterDistanceMatching(estimated_object=e, ground_truth_object=g, transforms=gtf.transforms).value))
             for g in in_g] for e in in_e]
    modes = {"center": MatchingMode.CENTERDISTANCE, "plane": MatchingMode.PLANEDISTANCE,
             "iou2d": MatchingMode.IOU2D, "iou3d": MatchingMode.IOU3D}
    aph = None
    if PIPE_COMPARE_METRICS:
        from perception_eval.evaluation.metrics.detection.tp_metrics import TPMetricsAph

        aph = TPMetricsAph()
    pairs = []
    for r in pre:
        if r.ground_truth_object is None:
            continue
        sc = {name: None for name in modes}
        if PIPE_COMPARE_METRICS:
            for name, mm in modes.items():
                mt = r.get_matching(mm)
                sc[name] = None if mt is None else core.qopt(mt.value)
        pairs.append({"i": pos_e.get(r.estimated_object.uuid, -1), "j": pos_g.get(r.ground_truth_object.uuid, -1),
                      "pf": core.qopt(r.plane_distance.value), "s": sc,
                      "h": core.q(float(aph.get_value(r))) if aph is not None else "0"})
    radii = m.filtering_params.get("max_matchable_radii")
    return {"in_e": [_oid(o) for o in in_e], "vals": vals, "pairs": pairs,
            "radii": None if radii is None else [core.q(float(t)) for t in radii],
            "targets": [l.value for l in m.target_labels], "maps": []}


def run_impl(case) -> dict:
    """Set-up (manager, frames, configurations, the harness' own helper calls incl. the public re-run of filter + matcher) is
    OUTSIDE the `try`: a failure there propagates to the runner as an infrastructure error.  Only `add_frame_result` - the call
    C03 observes - may produce `out["err"]`."""
    import traceback

    from pyquaternion import Quaternion
    from perception_eval.common.dataset import FrameGroundTruth
    from perception_eval.common.schema import FrameID
    from perception_eval.common.transform import HomogeneousMatrix
    from perception_eval.evaluation.result.perception_frame_config import CriticalObjectFilterConfig, PerceptionPassFailConfig
    from harness import builders as _B  # registry with a history (replaced ego pose), see builders.give_history

    cfg, m = _manager(case)
    frames = []
    by_time: Dict[int, Any] = {}
    for fr in case["frames"]:
        if fr["time"] in by_time:  # the same dataset frame evaluated again (other estimates / critical filter)
            frames.append(by_time[fr["time"]])
            continue
        e = fr["ego"]
        trans, eyaw = _ego_pose(e)
        ego2map = HomogeneousMatrix(trans, Quaternion(axis=[0, 0, 1], angle=eyaw), FrameID.BASE_LINK, FrameID.MAP)
        gts = [_mk_object(g, True, fr, case["frame"], fr["time"]) for g in fr["gts"]]
        frames.append(FrameGroundTruth(fr["time"], str(len(frames)), gts, transforms=[ego2map]))
        _B.maybe_history(frames[-1], ego2map, ("c03", fr["time"], len(gts), e["tx"]))
        by_time[fr["time"]] = frames[-1]
    outs = []
    results = []
    for k, fr in enumerate(case["frames"]):
        gtf = frames[k]  # the dataset frame of this time stamp (the same object when a time stamp is evaluated again)
        ests = [_mk_object(o, False, fr, case["frame"], fr["time"]) for o in fr["ests"]]
        cr, pf = fr["crit"], fr["pf"]
        kw = {}
        ca, cb = _nt_list(cr["a"], _tag(cr, "a")), _nt_list(cr["b"], _tag(cr, "b"))
        if cr["mode"] == "box":
            kw["max_x_position_list"], kw["max_y_position_list"] = ca, cb
        else:
            kw["max_distance_list"], kw["min_distance_list"] = ca, cb
        cmp_, cconf = cr.get("min_points"), cr.get("conf")
        ccfg = CriticalObjectFilterConfig(
            cfg, list(cr["labels"]),
            min_point_numbers=None if cmp_ is None else _nt_list(cmp_, _tag(cr, "mp").replace("f", "i")),
            confidence_threshold_list=None if cconf is None else _nt_list(cconf, _tag(cr, "conf")), **kw,
        )
        pft = pf.get("nt") if isinstance(pf.get("nt"), str) else None
        if pf["labels"] is None:
            names = _all_label_names()
            thr = None if pf["thr"] is None else _nt_list([pf["thr"].get(nm, pf["thr"]["default"]) for nm in names], pft)
            pcfg = PerceptionPassFailConfig(cfg, None, matching_threshold_list=thr)
        else:
            pcfg = PerceptionPassFailConfig(cfg, list(pf["labels"]),
                                            matching_threshold_list=None if pf["thr"] is None else _nt_list(pf["thr"], pft))
        # the matcher's output before the critical filter (public functions; same deterministic calls add_frame_result makes)
        pre, in_e, in_g = _matcher_output(m, ests, gtf)
        matcher = [
            _pair(r) + [core.qopt(r.plane_distance.value), bool(r.is_label_correct)] for r in pre
        ]
        pipe = _pipe_inputs(m, gtf, pre, in_e, in_g) if case.get("pipe") else None
        try:
            res = m.add_frame_result(fr["time"], gtf, ests, ccfg, pcfg)
        except Exception as ex:  # the call under test raised
            return {"err": core.err_kind(ex), "trace": traceback.format_exc()[-600:], "frame": k}
        results.append(res)
        o = _snapshot(res)
        if pipe is not None:
            if PIPE_COMPARE_METRICS:
                pipe["maps"] = [_map_out(mp) for mp in res.metrics_score.maps]
            o["pipe"] = pipe
        o["matcher"] = matcher
        o["mgr_gts"] = [_oid(g) for g in in_g]
        o["tp_scores"] = [core.qopt(r.plane_distance.value) for r in res.pass_fail_result.tp_object_results]
        outs.append(o)
    # histories: the frame results as the manager holds them after the whole sequence
    held = list(m.frame_results)
    final = [_snapshot(res) for res in held]
    for res, s in zip(held, final):
        s["tp_scores"] = [core.qopt(r.plane_distance.value) for r in res.pass_fail_result.tp_object_results]
    return {"frames": outs, "final": final}


# =============================================================================== independent reference

def _F(x) -> Fraction:
    return core.F(x)


class Margins:
    """records how close every decision is to its boundary; `exact_ok` = the real comparison is exact"""

    def __init__(self, tol: float = NEAR) -> None:
        self.near = False
        self.ties = 0
        self.tol = tol

    def note(self, margin: float, exact_ok: bool) -> None:
        if margin == 0 and exact_ok:
            self.ties += 1
        elif margin < self.tol:
            self.near = True


def _is_dyadic(f: Fraction) -> bool:
    d = f.denominator
    return d & (d - 1) == 0


def is_target(o, is_gt: bool, P, exact: bool, M: Margins, score=None) -> bool:
    """`_is_target_object` re-implemented on the ego-relative coordinates of the case, exactly.
    P: {"labels","mode","a","b","min_points","conf"}; `exact`: the real code compares these very floats
    (BASE_LINK rendering) so ties are decided identically."""
    lab = o["label"]
    if lab == "FP":
        return True
    unk = lab == "unknown" and not is_gt and "unknown" not in P["labels"]
    if not unk and lab not in P["labels"]:
        return False
    idx = None if unk else P["labels"].index(lab)

    def bound(lst):
        if unk:
            b = sum(_F(v) for v in lst) / len(lst)  # np.mean
            return b, _is_dyadic(b)
        return _F(lst[idx]), True

    conf = P.get("conf")
    if conf is not None:
        c = Fraction(0) if unk else _F(conf[idx] if isinstance(conf, list) else conf)
        s = _F(1.0 if is_gt else o["score"])
        M.note(abs(float(s - c)), True)
        if not s > c:
            return False
    x, y = _F(o["x"]), _F(o["y"])
    if P["mode"] == "box":
        for v, lst in ((abs(x), P["a"]), (abs(y), P["b"])):
            b, rep = bound(lst)
            M.note(abs(float(v - b)), exact and rep)
            if not v < b:
                return False
    else:
        d2 = x * x + y * y
        d = math.sqrt(float(d2))
        b, rep = bound(P["a"])
        M.note(0.0 if (b >= 0 and d2 == b * b) else abs(d - float(b)), exact and rep)
        if not (b > 0 and d2 < b * b):
            return False
        b, rep = bound(P["b"])
        M.note(0.0 if (b >= 0 and d2 == b * b) else abs(d - float(b)), exact and rep)
        if not (b < 0 or d2 > b * b):
            return False
    mp = P.get("min_points")
    if mp is not None and is_gt:
        if not int(o.get("pts", 10)) >= (0 if unk else int(mp[idx])):
            return False
    return True


def outside_all_regions(o, P) -> bool:
    """geometry only: outside the most lenient per-label bound of P (used to report FP-labelled ground
    truths that are counted although no label's region contains them)"""
    x, y = abs(float(o["x"])), abs(float(o["y"]))
    if P["mode"] == "box":
        return x >= max(map(float, P["a"])) or y >= max(map(float, P["b"]))
    d = math.hypot(x, y)
    return d >= max(map(float, P["a"])) or d <= min(map(float, P["b"]))


def label_ok(policy: str, est_label: str, gt_label: str) -> bool:
    if gt_label == "FP" or policy == "allow_any":
        return True
    if policy == "allow_unknown":
        return est_label == gt_label or est_label == "unknown"
    return est_label == gt_label


def pf_threshold(pf, gt_label: str):
    if pf["thr"] is None:
        return None
    if pf["labels"] is None:
        return pf["thr"].get(gt_label, pf["thr"]["default"])
    if gt_label in pf["labels"]:
        return pf["thr"][pf["labels"].index(gt_label)]
    return None


def eq_keys(fr) -> Dict[int, int]:
    """class of DynamicObject.__eq__ (time, label, position, orientation) for the ground truths of a frame"""
    seen: Dict[Tuple, int] = {}
    out = {}
    for g in fr["gts"]:
        k = (g["label"], float(g.get("mx", g["x"])), float(g.get("my", g["y"])), float(g["z"]), float(g["yaw"]))
        seen.setdefault(k, g["id"])
        out[g["id"]] = seen[k]
    return out


NEAR32 = 1e-3


def _letters_of(d) -> str:
    nt = d.get("nt") if isinstance(d, dict) else None
    if isinstance(nt, str):
        return nt
    if isinstance(nt, dict):
        return "".join(str(v) for v in nt.values())
    return ""


def frame_tol(case, fr) -> float:
    """how far from a bound a decision must be to be compared.  Where a number is handed over as numpy.float32, numpy
    may carry out a comparison or a mean in single precision (`np.float32(x) < 20.1` rounds 20.1 to float32; the mean
    of a list of float32 bounds is a float32), which is as legitimate as the double-precision evaluation: such frames
    keep 1e-3 clear of every bound (exact ties between representable numbers are still compared)."""
    parts = [case["mgr"], fr["ego"], fr["crit"], fr["pf"]] + list(fr["ests"]) + list(fr["gts"])
    return NEAR32 if any("s" in _letters_of(d) for d in parts) else NEAR


def frame_facts(case, fr) -> dict:
    """everything the model needs that does not come from the matcher, plus the margins"""
    M = Margins(frame_tol(case, fr))
    exact = case["frame"] == "base_link"
    mg = dict(case["mgr"])
    mgr_e = {o["id"]: is_target(o, False, mg, exact, M) for o in fr["ests"]}
    mgr_g = {g["id"]: is_target(g, True, mg, exact, M) for g in fr["gts"]}
    cr = fr["crit"]
    crit_e = {o["id"]: is_target(o, False, cr, exact, M) for o in fr["ests"]}
    crit_g = {g["id"]: is_target(g, True, cr, exact, M) for g in fr["gts"]}
    keys = eq_keys(fr)
    return {
        "mgr_e": mgr_e, "mgr_g": mgr_g, "crit_e": crit_e, "crit_g": crit_g, "keys": keys, "near": M.near,
        "ties": M.ties, "dup": len(set(keys.values())) != len(keys),
        "est": {o["id"]: o for o in fr["ests"]}, "gt": {g["id"]: g for g in fr["gts"]},
    }


def _gt_json(g, ff) -> dict:
    return {"id": g["id"], "fp": g["label"] == "FP", "crit": bool(ff["crit_g"][g["id"]]), "key": ff["keys"][g["id"]]}


def model_requests(case, out) -> List[dict]:
    if "err" in out:
        return []
    reqs = []
    for fr, o in zip(case["frames"], out["frames"]):
        ff = frame_facts(case, fr)
        gts = [_gt_json(g, ff) for g in fr["gts"] if ff["mgr_g"][g["id"]]]
        results = []
        for e, g, score, _lab in o["matcher"]:
            eo = ff["est"].get(e)
            go = ff["gt"].get(g) if g is not None else None
            if eo is None or (g is not None and go is None):
                continue  # foreign object: reported by compare
            thr = pf_threshold(fr["pf"], go["label"]) if go is not None else None
            results.append({
                "est": e, "ec": bool(ff["crit_e"][e]), "gt": _gt_json(go, ff) if go is not None else None,
                "lab": label_ok(case["policy"], eo["label"], go["label"]) if go is not None else False,
                "thr": core.qopt(thr), "score": score if go is not None else None,
            })
        reqs.append({"op": "frame", "gts": gts, "results": results})
    if case.get("pipe"):
        # the composed model: one request per frame, after the per-frame requests above
        for fr, o in zip(case["frames"], out["frames"]):
            reqs.append(_pipe_request(case, fr, o, frame_facts(case, fr)))
    # the critical filter computed by the model from positions / frame ids / transforms (after all other requests)
    for fr, o in zip(case["frames"], out["frames"]):
        reqs.append(_crit_request(case, fr, o, frame_facts(case, fr)))
    return reqs


def _crit_request(case, fr, o, ff, wiring: str = "code") -> dict:
    """one frame for `PEval.CritFrame.evaluateFrameWith` (driver op 'critframe'): the objects with the very positions
    and frame id the real objects carry, the ego pose registered in `frame_ground_truth.transforms` (cos / sin of the
    yaw as the floats the real matrix is built from), the critical filter's `filtering_params`, the matcher's
    pairing.  The model COMPUTES the critical flags (C10's `isTarget` at both call sites of `evaluate_frame`)."""
    L = _labels()

    def lab(name):  # the spelling of the C10 model: "<EnumClass>.<MEMBER>"
        return type(L[name]).__name__ + "." + L[name].name

    def jobj(d, is_gt):
        x, y, _z = _position(d, fr, case["frame"])
        return {"id": d["id"], "label": lab(d["label"]), "name": "false_positive" if d["label"] == "FP" else d["label"],
                "attrs": [], "score": core.q(1.0 if is_gt else float(d["score"])), "pc": int(d.get("pts", 10)),
                "uuid": ("g" if is_gt else "e") + str(d["id"]), "frame": case["frame"],
                "pos": [core.q(float(x)), core.q(float(y))], "key": ff["keys"].get(d["id"], d["id"]) if is_gt else d["id"]}

    objs = [jobj(e, False) for e in fr["ests"]] + [jobj(g, True) for g in fr["gts"]]
    trans, eyaw = _ego_pose(fr["ego"])
    cr = fr["crit"]
    ql = lambda l: None if l is None else [core.q(float(v)) for v in l]  # noqa: E731
    box = cr["mode"] == "box"
    crit = {
        "is_gt": False, "has_transforms": False, "targets": [lab(n) for n in cr["labels"]], "ignore": None,
        "max_x": ql(cr["a"]) if box else None, "max_y": ql(cr["b"]) if box else None,
        "max_dist": None if box else ql(cr["a"]), "min_dist": None if box else ql(cr["b"]),
        "conf": ql(cr.get("conf")), "min_pts": None if cr.get("min_points") is None else [int(v) for v in cr["min_points"]],
        "uuids": None,
    }
    results = []
    for e, g, score, _lab in o["matcher"]:
        eo = ff["est"].get(e)
        go = ff["gt"].get(g) if g is not None else None
        if eo is None or (g is not None and go is None):
            continue
        thr = pf_threshold(fr["pf"], go["label"]) if go is not None else None
        results.append({"est": e, "gt": g, "lab": label_ok(case["policy"], eo["label"], go["label"]) if go is not None else False,
                        "thr": core.qopt(thr), "score": score if go is not None else None})
    return {
        "op": "critframe", "wiring": wiring,
        "transforms": [{"frame": "map", "c": core.q(math.cos(float(eyaw))), "s": core.q(math.sin(float(eyaw))),
                        "tx": core.q(float(trans[0])), "ty": core.q(float(trans[1]))}],
        "crit": crit, "objs": objs, "gts": list(o["mgr_gts"]), "results": results,
    }


def _crit_base(case, out) -> int:
    """index of the first 'critframe' response"""
    return len(out["frames"]) * (2 if case.get("pipe") else 1)


def _pf_lists(pf):
    """pass/fail target labels and thresholds in the AP model's label numbers"""
    if pf["thr"] is None:
        return [], None
    if pf["labels"] is None:  # every label is a target
        names = list(LID)
        return [LID[n] for n in names], [core.q(float(pf["thr"].get(n, pf["thr"]["default"]))) for n in names]
    return [LID[n] for n in pf["labels"]], [core.q(float(t)) for t in pf["thr"]]


def _pipe_request(case, fr, o, ff) -> dict:
    P = o["pipe"]
    ests = []
    for e in P["in_e"]:
        eo = ff["est"][e]
        ests.append({"id": e, "label": ENUMVAL.get(eo["label"], eo["label"]), "frame": case["frame"], "l": LID[eo["label"]],
                     "c": core.q(float(eo["score"])), "crit": bool(ff["crit_e"][e])})
    gts = []
    for g in o["mgr_gts"]:
        go = ff["gt"][g]
        gts.append({"id": g, "label": ENUMVAL.get(go["label"], go["label"]), "frame": case["frame"], "l": LID[go["label"]],
                    "crit": bool(ff["crit_g"][g]), "key": ff["keys"][g]})
    pt, pth = _pf_lists(fr["pf"])
    return {
        "op": "pipeline", "policy": case["policy"].upper(), "mode": "center", "targets": P["targets"],
        "thresholds": P["radii"], "fp_validation": case["task"] == "fp_validation",
        "ests": ests, "gts": gts, "vals": P["vals"], "pairs": P["pairs"],
        "pf_targets": pt, "pf_thrs": pth,
        "crit_targets": [LID[n] for n in fr["crit"]["labels"]], "map_targets": [LID[n] for n in case["mgr"]["labels"]],
        "maps": [{"mode": mp["mode"], "thrs": [core.q(t) for t in mp["thrs"]]} for mp in P["maps"]],
    }


def _cmp_ap(tag, a, r) -> Optional[str]:
    if not core.close(a["ap"], core.unq(r["ap"])):
        return f"{tag}.ap impl {a['ap']} != composed model {r['ap']}"
    for k, mk in (("tp", "tp_list"), ("fp", "fp_list")):
        if len(a[k]) != len(r[mk]) or any(not core.close(x, core.unq(y)) for x, y in zip(a[k], r[mk])):
            return f"{tag}.{mk} impl {a[k]} != composed model {r[mk]}"
    return None


LIST_KEYS = ("results", "gts", "tp", "fp", "tn", "fn")


def _canon_list(v):
    """C03 is a COUNTING statement ("exactly one of TP or FP", "accounted for exactly once", results = TP + FP ...): it orders
    none of the lists, so both sides are compared as multisets (sorted; a missing ground truth sorts first)"""
    if isinstance(v, list):
        return sorted(v, key=lambda x: tuple(-1 if t is None else t for t in x) if isinstance(x, (list, tuple)) else (x,))
    return v


def _lists_differ(tag: str, impl: dict, model: dict, what: str) -> Optional[str]:
    for key in LIST_KEYS + ("ns", "nf"):
        if _canon_list(impl[key]) != _canon_list(model[key]):
            return f"{tag}: {key}: impl {impl[key]} != {what} {model[key]} (compared as multisets)"
    return None


def _table_has_tie(P: dict) -> bool:
    """two cells of the matcher's real score table carry the same value: the winner of such a tie is left open by C02
    ("a partner scoring at least as well"), so the composed model's own matching may legitimately differ from the real one"""
    seen = set()
    for row in P["vals"]:
        for v in row:
            if v in seen:
                return True
            seen.add(v)
    return False


def _cmp_pipe(k, o, r, dup) -> Optional[str]:
    """end-to-end comparison of one frame with the composed model's response; "tie" = not compared (see _table_has_tie)"""
    if r is None:
        return f"frame {k}: no response of the composed model"
    if "err" in r:
        return f"frame {k}: add_frame_result succeeded, composed model raised {r['err']}"
    if not r.get("coherent"):
        return f"frame {k}: harness error, the two label encodings sent to the composed model disagree"
    want = [p[:2] for p in o["matcher"]]
    if _canon_list(r["matched"]) != _canon_list(want):
        if _table_has_tie(o["pipe"]):
            return "tie"
        return f"frame {k}: matcher pairs impl {want} != composed model {r['matched']} (no two scores tie)"
    d = _lists_differ(f"frame {k} (composed)", o, r, "model")
    if d:
        return d
    maps = o["pipe"]["maps"] if PIPE_COMPARE_METRICS else []
    if PIPE_COMPARE_METRICS and len(maps) != len(r["maps"]):
        return f"frame {k}: {len(maps)} Maps in metrics_score, composed model has {len(r['maps'])}"
    for n, (mp, mr) in enumerate(zip(maps, r["maps"])):
        tag = f"frame {k} map[{n}:{mp['mode']}]"
        if len(mp["aps"]) != len(mr["aps"]) or len(mp["aphs"]) != len(mr["aphs"]):
            return f"{tag}: number of per-label APs differs"
        for i, (a, b) in enumerate(zip(mp["aps"], mr["aps"])):
            d = _cmp_ap(f"{tag}.aps[{i}]", a, b)
            if d:
                return d
        for i, (a, b) in enumerate(zip(mp["aphs"], mr["aphs"])):
            d = _cmp_ap(f"{tag}.aphs[{i}]", a, b)
            if d:
                return d
        for key in ("map", "maph"):
            if not core.close(mp[key], core.unq(mr[key])):
                return f"{tag}.{key} impl {mp[key]} != composed model {mr[key]}"
    if not dup and not (r.get("wf") and r.get("gts_distinct") and r.get("ids_distinct")):
        return f"frame {k}: composed model reports wf={r.get('wf')} gts_distinct={r.get('gts_distinct')} on a set of ground truths"
    return None


def _views(case, out):
    """(frame index, case frame, matcher-side record, observed snapshot, tag): every frame as observed right
    after its add_frame_result and as held by manager.frame_results after the whole history"""
    for k, (fr, o) in enumerate(zip(case["frames"], out["frames"])):
        yield k, fr, o, o, "at-time"
    if len(out["final"]) != len(out["frames"]):
        yield -1, None, None, None, "length"
        return
    for k, (fr, o, s) in enumerate(zip(case["frames"], out["frames"], out["final"])):
        yield k, fr, o, s, "after-history"


def compare(case, out, resps) -> Optional[str]:
    if "err" in out:
        return f"add_frame_result raised {out['err']} (frame {out.get('frame')}): {str(out.get('trace', ''))[-300:]}"
    near = False
    for k, fr, o, snap, tag in _views(case, out):
        if tag == "length":
            return f"manager holds {len(out['final'])} frame results after {len(out['frames'])} add_frame_result calls"
        r = resps[k]
        ff = frame_facts(case, fr)
        near = near or ff["near"]
        if ff["near"]:
            continue
        if tag == "at-time":
            # inputs of the model that were predicted independently must agree with what the pipeline did
            mg = [g["id"] for g in fr["gts"] if ff["mgr_g"][g["id"]]]
            if sorted(mg) != sorted(o["mgr_gts"]):
                return f"frame {k}: ground truths after the manager filter {o['mgr_gts']} != predicate on the geometry {mg}"
            me = [e["id"] for e in fr["ests"] if ff["mgr_e"][e["id"]]]
            got = [p[0] for p in o["matcher"]]
            if not set(got) <= set(me) or (case["task"] == "detection" and sorted(got) != sorted(me)):
                return f"frame {k}: estimates reaching the matcher {sorted(got)} != predicate on the geometry {sorted(me)}"
            for e, g, _s, lab in o["matcher"]:
                if g is not None:
                    if g not in ff["gt"]:
                        return f"frame {k}: matcher paired a foreign ground truth {g}"
                    want = label_ok(case["policy"], ff["est"][e]["label"], ff["gt"][g]["label"])
                    if want != lab:
                        return f"frame {k}: is_label_correct({e},{g})={lab}, policy {case['policy']} says {want}"
            if not ff["dup"] and not r.get("wf"):
                return f"frame {k}: matcher output violates the well-formedness hypothesis (MatcherWF false)"
            if case.get("pipe"):
                d = _cmp_pipe(k, o, resps[len(out["frames"]) + k], ff["dup"])
                if d == "tie":
                    near = True  # counted as skipped: the composed model's matcher broke an exact tie the other way
                    STATS["compare:composed-model-not-compared(other-tie-winner)"] += 1
                elif d:
                    return d
            # the model that COMPUTES the critical flags (positions, frame id, transforms, both filter call sites)
            rc = resps[_crit_base(case, out) + k]
            if "err" in rc:
                return f"frame {k}: critical-frame model raised {rc['err']}"
            d = _lists_differ(f"frame {k} (critframe)", snap, rc, "model with computed critical flags")
            if d:
                return d
            if not rc.get("sites_agree"):
                return f"frame {k} (critframe): the two filter call sites disagree on a paired ground truth"
        d = _lists_differ(f"frame {k} ({tag})", snap, r, "model")
        if d:
            return d
    return "skip" if near else None


def oracle(case, out) -> Optional[str]:
    """the property itself on the real output; never consults the model"""
    if "err" in out:
        # "In every evaluated frame each object result ... is reported as exactly one of TP or FP": every generated frame is
        # inside the quantifier, add_frame_result has to return its accounting
        return f"add_frame_result raised {out['err']} on a valid frame (frame {out.get('frame')}): {str(out.get('trace', ''))[-300:]}"
    if "frames" not in out or "final" not in out:
        return None  # nothing observed
    for k, fr, m_, o, tag in _views(case, out):
        if tag == "length":
            return f"manager holds {len(out['final'])} frame results after {len(out['frames'])} add_frame_result calls"
        ff = frame_facts(case, fr)
        if ff["near"]:
            continue
        k = f"{k} ({tag})"
        gl = {g["id"]: g["label"] for g in fr["gts"]}
        el = {e["id"]: e["label"] for e in fr["ests"]}
        tp, fp, tn, fn = o["tp"], o["fp"], o["tn"], o["fn"]
        # --- results = TP + FP, each surviving result exactly once
        surv = [p[:2] for p in m_["matcher"]
                if ff["crit_e"].get(p[0]) and (p[1] is None or ff["crit_g"].get(p[1]))]
        if sorted(p[0] for p in tp + fp) != sorted(p[0] for p in surv):
            return f"frame {k}: estimates of TP+FP {sorted(p[0] for p in tp + fp)} != surviving results {sorted(p[0] for p in surv)}"
        if len(tp) + len(fp) != len(o["results"]) or sorted(map(str, o["results"])) != sorted(map(str, surv)):
            return f"frame {k}: |TP|+|FP|={len(tp) + len(fp)} vs stored results {o['results']} vs surviving {surv}"
        pairing = {p[0]: p[1] for p in m_["matcher"]}
        for e, g in tp:
            if pairing.get(e) != g:
                return f"frame {k}: TP ({e},{g}) is not a pair of the matcher"
        for e, g in fp:
            if g is not None and pairing.get(e) != g:
                return f"frame {k}: FP ({e},{g}) is not a pair of the matcher"
        # --- nothing outside the critical region (and the manager's range) is counted
        for e, g in tp + fp:
            if not (ff["crit_e"][e] and ff["mgr_e"][e]):
                return f"frame {k}: estimate {e} counted although outside the critical region"
            if g is not None and not (ff["crit_g"][g] and ff["mgr_g"][g]):
                return f"frame {k}: ground truth {g} of a counted result is outside the critical region"
        for g in tn + fn:
            if g not in ff["crit_g"] or not (ff["crit_g"][g] and ff["mgr_g"][g]):
                return f"frame {k}: ground truth {g} in TN/FN although outside the critical region"
        if STRICT_FP_REGION:
            for g in tn + [g for _, g in fp if g is not None]:
                if gl[g] == "FP" and outside_all_regions(ff["gt"][g], fr["crit"]):
                    return f"frame {k}: FP-labelled ground truth {g} counted although beyond every bound of the critical filter"
        # --- TP soundness from the real scores
        for (e, g), sc in zip(tp, o["tp_scores"]):
            if gl[g] == "FP":
                return f"frame {k}: TP ({e},{g}) has an FP-labelled ground truth"
            if not label_ok(case["policy"], el[e], gl[g]):
                return f"frame {k}: TP ({e},{g}) labels {el[e]}/{gl[g]} incompatible under {case['policy']}"
            thr = pf_threshold(fr["pf"], gl[g])
            if thr is not None and not (sc is not None and core.unq(sc) < _F(thr)):
                return f"frame {k}: TP ({e},{g}) score {sc} does not beat the threshold {thr} of label {gl[g]}"
        # --- counters
        if o["ns"] != len(tp) + len(tn) or o["nf"] != len(fp) + len(fn):
            return f"frame {k}: get_num_success/fail {o['ns']}/{o['nf']} != |TP|+|TN| / |FP|+|FN|"
        # --- every critical ground truth exactly once (domain: ground truths are a set)
        if ff["dup"]:
            continue
        critical = [g["id"] for g in fr["gts"] if ff["mgr_g"][g["id"]] and ff["crit_g"][g["id"]]]
        if sorted(o["gts"]) != sorted(critical):
            return f"frame {k}: critical ground truths kept {o['gts']} != region predicate {critical}"
        matched_fp = [g for e, g in fp if g is not None and gl[g] == "FP"]
        accounted = [g for _, g in tp] + fn + tn + matched_fp
        if sorted(accounted) != sorted(critical):
            return (f"frame {k}: critical ground truths {sorted(critical)} are not accounted exactly once: "
                    f"TP {[g for _, g in tp]} FN {fn} TN {tn} matched-FP {matched_fp}")
        ordinary = [g for g in critical if gl[g] != "FP"]
        fplab = [g for g in critical if gl[g] == "FP"]
        if len(ordinary) != len(tp) + len(fn):
            return f"frame {k}: ordinary critical GT {len(ordinary)} != TP {len(tp)} + FN {len(fn)}"
        if len(fplab) != len(tn) + len(matched_fp):
            return f"frame {k}: FP-labelled critical GT {len(fplab)} != TN {len(tn)} + matched FP {len(matched_fp)}"
        if any(gl[g] == "FP" for g in fn) or any(gl[g] != "FP" for g in tn):
            return f"frame {k}: FN {fn} / TN {tn} hold a ground truth of the wrong label kind"
    return None


def branches(case, out) -> List[str]:
    if "err" in out:
        return ["err:" + out["err"]]
    br = []
    if case.get("table_witness"):
        br.append("table:witness-case")
    if not _NOTED:
        _NOTED.append(1)
        br.append(_table_note()[0])
    br += [f"task:{case['task']}", f"frame:{case['frame']}", f"policy:{case['policy']}", f"mgr:{case['mgr']['mode']}",
          f"frames:{len(case['frames'])}"]
    nontrivial = False
    for fr, o in zip(case["frames"], out["frames"]):
        ff = frame_facts(case, fr)
        if "pipe" in o:
            P = o["pipe"]
            br.append("pipeline:frame")
            br.append(f"pipeline:maps:{len(P['maps'])}")
            br.append("pipeline:radii:" + ("none" if P["radii"] is None else "list"))
            if P["pairs"]:
                br.append("pipeline:paired")
            if len(o["results"]) != len(o["matcher"]):
                br.append("pipeline:critical-drops-result")
            for mp in P["maps"]:
                for a in mp["aps"]:
                    br.append("pipeline:ap:" + ("undefined" if a["ap"] is None else "0" if a["ap"] == 0 else "1" if a["ap"] == 1 else "inner"))
                for a, h in zip(mp["aps"], mp["aphs"]):
                    if a["ap"] is not None and h["ap"] is not None and h["ap"] < a["ap"]:
                        br.append("pipeline:aph<ap")
        br.append(f"nE:{len(fr['ests'])}")
        br.append(f"nG:{len(fr['gts'])}")
        br.append(f"crit:{fr['crit']['mode']}")
        br.append("pf:" + ("nothr" if fr["pf"]["thr"] is None else "all-labels" if fr["pf"]["labels"] is None else "per-label"))
        if o["matcher"] or o["mgr_gts"]:
            nontrivial = True
        if ff["near"]:
            br.append("near-boundary")
        if ff["ties"]:
            br.append("exact-tie-on-bound")
        if ff["dup"]:
            br.append("outside-domain:dup-gt")
        gl = {g["id"]: g["label"] for g in fr["gts"]}
        pairing = {p[0]: p for p in o["matcher"]}
        kept = {p[0] for p in o["results"]}
        for p in o["matcher"]:
            if p[0] not in kept:
                why = "est" if not ff["crit_e"].get(p[0]) else "gt"
                br.append(f"result-dropped-by-critical:{why}")
        for e, g in o["tp"]:
            br.append("status:TP" + (":nothr" if pf_threshold(fr["pf"], gl[g]) is None else ""))
        for e, g in o["fp"]:
            if g is None:
                br.append("status:FP-nogt" if pairing[e][1] is None else "status:TN-rewrap")
            elif gl[g] == "FP":
                br.append("status:matched-FP")
            else:
                br.append("status:FP-FN" + (":label" if not pairing[e][3] else ":score"))
        matched = {p[1] for p in o["results"] if p[1] is not None}
        for g in o["fn"]:
            if g not in matched:
                br.append("fn:unmatched")
        for g in o["tn"]:
            if g not in matched:
                br.append("tn:unmatched")
        for g in fr["gts"]:
            if g["label"] == "FP" and g["id"] in o["gts"] and outside_all_regions(g, fr["crit"]):
                br.append("fp-labelled-gt-beyond-every-bound-counted")
        br.extend(_twin_branches(case, fr, o, ff))
        br.extend(_type_branches(case, fr, ff))
        if any(not ff["mgr_g"][g["id"]] for g in fr["gts"]) or any(not ff["mgr_e"][e["id"]] for e in fr["ests"]):
            br.append("manager-filter-drops")
        if any(ff["mgr_g"][g["id"]] and not ff["crit_g"][g["id"]] for g in fr["gts"]):
            br.append("gt-outside-critical")
    if not nontrivial:
        br.append("trivial")
    return br


# =============================================================================== generation

def _grid(rng, lo, hi, den=8):
    return rng.randint(int(lo * den), int(hi * den)) / den


def _bounds(rng, n, mode, on_grid: bool, scale):
    """per-label bounds; on_grid: same 1/8 grid as the coordinates (exact ties possible), else shifted by 1/16"""
    off = 0.0 if on_grid else 1.0 / 16
    if mode == "box":
        if rng.random() < 0.5:
            a = [_grid(rng, scale * 0.3, scale) + off] * n
            b = [_grid(rng, scale * 0.3, scale) + off] * n
        else:
            a = [_grid(rng, scale * 0.3, scale) + off for _ in range(n)]
            b = [_grid(rng, scale * 0.3, scale) + off for _ in range(n)]
        return a, b
    if rng.random() < 0.5:
        mx = [_grid(rng, scale * 0.4, scale) + off] * n
        mn = [_grid(rng, 0, scale * 0.3) + off if rng.random() < 0.7 else 0.0] * n
    else:
        mx = [_grid(rng, scale * 0.4, scale) + off for _ in range(n)]
        mn = [_grid(rng, 0, scale * 0.3) + off if rng.random() < 0.7 else 0.0 for _ in range(n)]
    return mx, mn


def _label_subset(rng, must=()):
    pool = list(EST_LABELS)
    k = rng.choice([1, 2, 3, 4, 4, 5, 5])
    s = rng.sample(pool, k)
    for l in must:
        if l not in s:
            s.append(l)
    return s


def _gen_mgr(rng, frame):
    labels = _label_subset(rng) if rng.random() < 0.7 else ["car", "bicycle", "pedestrian", "motorbike"]
    mode = rng.choice(["box", "ring"])
    a, b = _bounds(rng, len(labels), mode, frame == "base_link" and rng.random() < 0.5, 40)
    return {
        "labels": labels, "mode": mode, "a": a, "b": b,
        "min_points": [rng.choice([0, 0, 1, 5]) for _ in labels] if rng.random() < 0.4 else None,
        "conf": rng.choice([0.0, 0.25, 0.5]) if rng.random() < 0.25 else None,
        "radii": rng.choice([1.0, 2.5, 6.0]) if rng.random() < 0.4 else None,
    }


def _axis(rng, bounds):
    """one coordinate relative to the per-label bounds of an axis: inside, next to a bound, or outside"""
    B = math.floor(float(rng.choice(bounds)) * 8) / 8
    u = rng.random()
    if u < 0.3:
        v = B + rng.choice([-0.5, -0.25, -0.125, 0, 0, 0.125, 0.25, 0.5])
    elif u < 0.85:
        v = _grid(rng, 0, max(B * 0.9, 0.125))
    else:
        v = _grid(rng, B, B * 1.5 + 1)
    return v * rng.choice([1, -1])


def _place(rng, P):
    """a position (x, y) on the 1/8 grid, spread around the region of P"""
    if P["mode"] == "box":
        return _axis(rng, P["a"]), _axis(rng, P["b"])
    pos = [v for v in map(float, P["a"] + P["b"]) if v >= 1.0]
    if pos and rng.random() < 0.35:
        # on a circle close to a ring bound (Pythagorean directions give exact ties when the bound is on the grid)
        r = math.floor(rng.choice(pos) * 8) / 8 + rng.choice([0, 0, 0, -0.125, 0.125, 0.5, -0.5])
        tr = rng.choice([(3, 4, 5), (4, 3, 5), (5, 12, 13), (8, 15, 17), (1, 0, 1), (0, 1, 1)])
        return (round(r * tr[0] / tr[2] * 8) / 8) * rng.choice([1, -1]), (round(r * tr[1] / tr[2] * 8) / 8) * rng.choice([1, -1])
    A = float(rng.choice(P["a"]))
    lim = A * (0.75 if rng.random() < 0.8 else 1.4)
    return _grid(rng, -lim, lim), _grid(rng, -lim, lim)


def _gen_frame(rng, case, k, tier, reuse=None):
    frame = case["frame"]
    mgr = case["mgr"]
    on_grid = frame == "base_link" and rng.random() < 0.6
    must = mgr["labels"] if case["task"] == "detection" else ()
    cl = _label_subset(rng, must) if rng.random() < 0.6 else list(mgr["labels"])
    cmode = rng.choice(["box", "ring"])
    scale = rng.choice([10, 20, 30])
    ca, cb = _bounds(rng, len(cl), cmode, on_grid, scale)
    crit = {
        "labels": cl, "mode": cmode, "a": ca, "b": cb,
        "min_points": [rng.choice([0, 1, 5, 12]) for _ in cl] if rng.random() < 0.2 else None,
        "conf": [rng.choice([0.0, 0.25, 0.5, 0.75]) for _ in cl] if rng.random() < 0.2 else None,
    }
    u = rng.random()
    if u < 0.15:
        pf = {"labels": _label_subset(rng), "thr": None}
    elif u < 0.35:
        pf = {"labels": None, "thr": {"default": rng.choice([0.5, 1.0, 2.0]), "FP": rng.choice([0.25, 1.0, 3.0]),
                                     "car": rng.choice([0.5, 1.0, 2.0])}}
    elif u < 0.45:
        pf = {"labels": None, "thr": None}
    else:
        pl = _label_subset(rng)
        pf = {"labels": pl, "thr": [rng.choice([0.25, 0.5, 1.0, 1.0, 2.0, 4.0]) for _ in pl]}
    nmax = 8 if tier == "quick" else rng.choice([8, 8, 12])
    nG = rng.choice([0, 1, 2, 3, 4, 5, 6, 7, 8]) if rng.random() < 0.8 else rng.randint(0, nmax)
    if case["task"] == "fp_validation":
        glabels = ["FP"] if rng.random() < 0.75 else GT_LABELS
    else:
        glabels = ["car", "car", "bicycle", "pedestrian", "motorbike", "unknown", "FP"]
    gts = []
    if reuse is not None:
        gts, nG = copy.deepcopy(reuse["gts"]), 0
    for j in range(nG):
        P = crit if rng.random() < 0.7 else mgr
        gx, gy = _place(rng, P)
        g = {"id": 101 + j, "x": gx, "y": gy, "z": rng.choice([0.0, 0.0, 0.5]),
             "yaw": _grid(rng, -3, 3, 64), "label": rng.choice(glabels), "pts": rng.choice([0, 1, 5, 10, 20]),
             "w": _grid(rng, 0.5, 2.5), "l": _grid(rng, 0.5, 5), "h": _grid(rng, 1, 2)}
        gts.append(g)
    if gts and reuse is None and rng.random() < 0.04:
        d = dict(rng.choice(gts))
        d["id"] = 101 + len(gts)
        d["w"] = d["w"] + 0.5
        gts.append(d)  # twin under __eq__: outside the property's domain, kept for the correspondence
    ests = []
    nE = rng.choice([0, 1, 2, 3, 4, 5, 6, 7, 8]) if rng.random() < 0.8 else rng.randint(0, nmax)
    for i in range(nE):
        if gts and rng.random() < 0.75:
            g = rng.choice(gts)
            lab = g["label"] if g["label"] != "FP" else rng.choice(EST_LABELS)
            v = rng.random()
            if v < 0.15:
                lab = "unknown"
            elif v < 0.27:
                lab = rng.choice(EST_LABELS)
            dx = rng.choice([0, 0.125, 0.25, 0.25, 0.5, 0.5, 1.0, 1.0, 2.0, 4.0]) * rng.choice([1, -1])
            dy = rng.choice([0, 0, 0, 0.125, 0.5, 1.0]) * rng.choice([1, -1])
            same = rng.random() < 0.7
            e = {"id": 1 + i, "x": g["x"] + dx, "y": g["y"] + dy, "z": g["z"],
                 "yaw": g["yaw"] if same else _grid(rng, -3, 3, 64), "label": lab,
                 "w": g["w"] if same else _grid(rng, 0.5, 2.5), "l": g["l"] if same else _grid(rng, 0.5, 5), "h": g["h"]}
        else:
            P = crit if rng.random() < 0.7 else mgr
            ex, ey = _place(rng, P)
            e = {"id": 1 + i, "x": ex, "y": ey, "z": 0.0, "yaw": _grid(rng, -3, 3, 64),
                 "label": rng.choice(EST_LABELS), "w": _grid(rng, 0.5, 2.5), "l": _grid(rng, 0.5, 5), "h": _grid(rng, 1, 2)}
        e["score"] = rng.choice([0.125, 0.25, 0.5, 0.625, 0.75, 0.875, 1.0])
        ests.append(e)
    ego = {"yaw": _grid(rng, -3, 3, 64), "tx": _grid(rng, -2048, 2048), "ty": _grid(rng, -2048, 2048)}
    if rng.random() < 0.15:
        ego = {"yaw": 0.0, "tx": 0.0, "ty": 0.0}
    if reuse is not None:
        return {"time": reuse["time"], "ego": dict(reuse["ego"]), "ests": ests, "gts": gts, "crit": crit, "pf": pf}
    return {"time": 100000 * (k + 1), "ego": ego, "ests": ests, "gts": gts, "crit": crit, "pf": pf}


def _gen_case(rng, pool, tier):
    task, frame, policy, mgr = rng.choice(pool)
    case = {"kind": "history", "task": task, "frame": frame, "policy": policy, "mgr": mgr, "frames": []}
    n = rng.choice([1, 1, 1, 2, 2, 3, 4, 5, 6])
    for k in range(n):
        # now and then the same dataset frame is evaluated again (other estimates, other critical filter)
        reuse = rng.choice(case["frames"]) if k and rng.random() < 0.25 else None
        case["frames"].append(_gen_frame(rng, case, k, tier, reuse))
    return case


# ---- 'twin' ground truths: DISTINCT objects that differ only by a small planar offset -------------------------
# Two ground truths with the same label, orientation, height and time stamp standing 1/1024 .. 1 m apart are two
# objects (they are not equal under DynamicObject.__eq__, whatever the magnitude of their coordinates), so they are
# inside the property's domain and each must be accounted exactly once.  The families below place such pairs inside
# the manager's and the critical region, in BASE_LINK and in MAP scenes whose ego pose is up to ~1.2e5 m from the map
# origin (real maps), with: one twin matched by an estimate and the other not, both unmatched, both matched, and the
# same with FP-labelled twins (TN / TN re-wrap / matched FP).  Nothing in the oracle is specific to them: the
# ordinary counting identities are evaluated (frame_facts marks them `dup` only when they are exactly equal).

TWIN_OFFSETS = [0.2, 0.25, 0.3, 0.375, 0.4, 0.5, 0.5, 0.6, 0.625, 0.7, 0.75, 0.8, 0.875, 0.9, 1.0]
TWIN_SMALL = [1.0 / 1024, 1.0 / 256, 1.0 / 64, 1.0 / 16, 0.125]  # millimetres apart is still apart
TWIN_VARIANTS = ["one-matched", "one-matched", "one-matched", "both-unmatched", "both-matched", "matched-fails"]
FAR = 5e4  # |map coordinate| from which a relative tolerance of 1e-5 reaches 0.5 m


def _twin_ego(rng, frame):
    """ego pose of a twin frame: in MAP scenes mostly far from the origin on BOTH axes"""
    u = rng.random()
    if frame == "map" and u < 0.65:
        mag = lambda: rng.choice([1, -1]) * _grid(rng, 50000, 120000)  # noqa: E731
        return {"yaw": _grid(rng, -3, 3, 64) if rng.random() < 0.8 else 0.0, "tx": mag(), "ty": mag()}
    if u < 0.8:
        return {"yaw": _grid(rng, -3, 3, 64), "tx": _grid(rng, -2048, 2048), "ty": _grid(rng, -2048, 2048)}
    if u < 0.9:
        return {"yaw": _grid(rng, -3, 3, 64), "tx": rng.choice([1, -1]) * _grid(rng, 50000, 120000), "ty": _grid(rng, -64, 64)}
    return {"yaw": 0.0, "tx": 0.0, "ty": 0.0}


def _inside(o, is_gt, case, crit) -> bool:
    """inside the manager's and the critical region with a clear margin (no decision next to a bound)"""
    M = Margins()
    ok = is_target(o, is_gt, dict(case["mgr"]), False, M) and is_target(o, is_gt, crit, False, M)
    return ok and not M.near


def _add_twins(rng, case, fr, variant: str, fp_label: bool) -> bool:
    """inject one pair of twin ground truths (and the estimates of `variant`) into frame `fr`"""
    crit, mgr = fr["crit"], case["mgr"]
    common = [l for l in mgr["labels"] if l in crit["labels"] and l != "unknown"]
    if fp_label:
        label = "FP"
    elif common:
        label = rng.choice(common)
    else:
        return False
    off = rng.choice(TWIN_SMALL) if rng.random() < 0.12 else rng.choice(TWIN_OFFSETS)
    th = rng.choice([0.0, 0.0, math.pi / 2]) if rng.random() < 0.5 else _grid(rng, -3, 3, 64)
    dx, dy = (off, 0.0) if th == 0.0 else (0.0, off) if th == math.pi / 2 else (off * math.cos(th), off * math.sin(th))
    gid = max([g["id"] for g in fr["gts"]] + [100]) + 1
    eid = max([e["id"] for e in fr["ests"]] + [0]) + 1
    for _ in range(40):
        gx, gy = _place(rng, crit if rng.random() < 0.8 else mgr)
        a = {"id": gid, "x": gx, "y": gy, "z": rng.choice([0.0, 0.0, 0.5, 1.0]), "yaw": _grid(rng, -3, 3, 64), "label": label,
             "pts": rng.choice([10, 20, 100]), "w": _grid(rng, 0.5, 2.5), "l": _grid(rng, 0.5, 5), "h": _grid(rng, 1, 2)}
        b = dict(a, id=gid + 1, x=gx + dx, y=gy + dy)
        if rng.random() < 0.3:  # size is no part of an object's identity either way
            b["w"], b["l"] = _grid(rng, 0.5, 2.5), _grid(rng, 0.5, 5)
        if crit.get("min_points") is not None or mgr.get("min_points") is not None:
            a["pts"] = b["pts"] = 100
        if _inside(a, True, case, crit) and _inside(b, True, case, crit):
            break
    else:
        return False

    def est(g, i, slip):
        lab = g["label"] if g["label"] != "FP" else rng.choice(common or EST_LABELS)
        # next to `g` on the side away from its twin, so the matcher's nearest ground truth is `g`
        return {"id": i, "x": g["x"] - slip * (dx / off) * (1 if g is a else -1), "y": g["y"] - slip * (dy / off) * (1 if g is a else -1),
                "z": g["z"], "yaw": g["yaw"], "label": lab, "w": g["w"], "l": g["l"], "h": g["h"],
                "score": rng.choice([0.75, 0.875, 1.0])}

    first, second = (a, b) if rng.random() < 0.5 else (b, a)  # which twin the estimate belongs to, in either list order
    new = []
    if variant in ("one-matched", "both-matched"):
        new.append(est(first, eid, rng.choice([0.0, 1.0 / 64, 1.0 / 32, 1.0 / 16])))
    if variant == "both-matched":
        new.append(est(second, eid + 1, rng.choice([0.0, 1.0 / 64, 1.0 / 32])))
    if variant == "matched-fails":  # matched, but too far to pass (FP + FN) or with another label
        e = est(first, eid, rng.choice([0.0, 1.0 / 32]))
        if rng.random() < 0.5 and label != "FP":
            e["label"] = rng.choice([l for l in EST_LABELS if l != label])
        else:
            e["x"] -= 4.0 * (dx / off) * (1 if first is a else -1)
            e["y"] -= 4.0 * (dy / off) * (1 if first is a else -1)
        new.append(e)
    # estimates of the base frame standing closer to a twin than intended would only change the variant observed
    pair = [a, b] if rng.random() < 0.5 else [b, a]
    at = rng.choice([0, len(fr["gts"])])  # before or after the other ground truths; twins adjacent or not
    fr["gts"][at:at] = pair[:1]
    at2 = rng.choice([0, len(fr["gts"])])
    fr["gts"][at2:at2] = pair[1:]
    fr["ests"].extend(new)
    fr.setdefault("twins", []).append([a["id"], b["id"]])
    return True


def _gen_twin_case(rng, pool, tier):
    task, frame, policy, mgr = rng.choice(pool)
    case = {"kind": "history", "task": task, "frame": frame, "policy": policy, "mgr": mgr, "frames": []}
    for k in range(rng.choice([1, 1, 1, 2, 3])):
        fr = _gen_frame(rng, case, k, tier)
        # a light base frame: the twins are the subject, the rest is context
        fr["gts"], fr["ests"] = fr["gts"][: rng.choice([0, 0, 1, 2, 4])], fr["ests"][: rng.choice([0, 0, 1, 2])]
        fr["ego"] = _twin_ego(rng, frame)
        if fr["pf"]["thr"] is not None and fr["pf"]["labels"] is not None and rng.random() < 0.7:
            fr["pf"]["thr"] = [max(float(t), 0.5) for t in fr["pf"]["thr"]]
        for _ in range(rng.choice([1, 1, 2])):
            fp_label = rng.random() < (0.6 if task == "fp_validation" else 0.25)
            _add_twins(rng, case, fr, rng.choice(TWIN_VARIANTS), fp_label)
        case["frames"].append(fr)
    return case


def _kind(v) -> str:
    import numpy as np

    if isinstance(v, (int, np.integer)):
        return "int"
    if isinstance(v, np.float32):
        return "f32"
    return "float"


def _type_branches(case, fr, ff) -> List[str]:
    """histogram keys of the numeric types actually handed to the real code in this frame"""
    br = []
    e = fr["ego"]
    trans, eyaw = _ego_pose(e)
    ego_off = float(e["yaw"]) != 0.0 or float(e["tx"]) != math.floor(float(e["tx"])) or float(e["ty"]) != math.floor(float(e["ty"]))
    if any(_kind(v) != "float" for v in trans) or _kind(eyaw) != "float":
        br.append("types:ego:" + "/".join(sorted({_kind(v) for v in trans + (eyaw,)})))
    for o in fr["ests"] + fr["gts"]:
        ks = {_kind(v) for v in _position(o, fr, case["frame"])}
        if ks != {"float"}:
            k = "all-" + next(iter(ks)) if len(ks) == 1 else "mixed"
            br.append(f"types:pos:{k}:{case['frame']}")
            if k == "all-int" and case["frame"] == "map" and ego_off:
                br.append("types:pos:all-int:map:ego-pose-not-integral")
        if any(_kind(_nt(o[f], t)) != "float" for f, t in zip(("w", "l", "h"), _tag(o, "s", 3))):
            br.append("types:size:non-float")
        if "score" in o and _kind(_nt(o["score"], _tag(o, "c"))) != "float":
            br.append("types:score:non-float")
    for nm, P in (("crit", fr["crit"]), ("mgr", case["mgr"])):
        for key in ("a", "b", "conf"):
            v = P.get(key)
            if v is None:
                continue
            ks = {_kind(_nt(t, _tag(P, key))) for t in (v if isinstance(v, list) else [v])}
            if ks != {"float"}:
                br.append(f"types:{nm}:{key}:" + "/".join(sorted(ks)))
    if fr["pf"].get("nt") and fr["pf"]["thr"] is not None:
        vals = fr["pf"]["thr"].values() if isinstance(fr["pf"]["thr"], dict) else fr["pf"]["thr"]
        ks = {_kind(_nt(t, fr["pf"]["nt"])) for t in vals}
        if ks != {"float"}:
            br.append("types:pf-thr:" + "/".join(sorted(ks)))
    if fr.get("between"):
        oid, key = fr["between"]
        o = ff["est"].get(oid) or ff["gt"].get(oid)
        if o is not None:
            inside = (ff["crit_e"] if oid <= 100 else ff["crit_g"])[oid]
            ints = {_kind(v) for v in _position(o, fr, case["frame"])} == {"int"}
            br.append(f"types:bound-between-true-and-rounded:{fr['crit']['mode']}:{'inside' if inside else 'outside'}"
                      + (":int-pos" if ints else "") + (":skipped" if ff["near"] else ""))
    if frame_tol(case, fr) != NEAR:
        br.append("types:float32-present(tol 1e-3)")
    return br


def _twin_branches(case, fr, o, ff) -> List[str]:
    """histogram keys of the twin pairs of a frame, from what the real code reported"""
    br = []
    e = fr["ego"]
    far = case["frame"] == "map" and abs(float(e["tx"])) >= FAR and abs(float(e["ty"])) >= FAR
    where = "map-far" if far else case["frame"]
    gl = {g["id"]: g for g in fr["gts"]}
    matched = {p[1] for p in o["results"] if p[1] is not None}
    for ia, ib in fr.get("twins", []):
        if ia not in gl or ib not in gl:
            continue  # shrunk away
        if ia not in o["gts"] or ib not in o["gts"]:
            br.append("twin:not-both-critical")
            continue
        n = (ia in matched) + (ib in matched)
        kind = "fp-label" if gl[ia]["label"] == "FP" else "ordinary"
        br.append(f"twin:{kind}:{['both-unmatched', 'one-matched', 'both-matched'][n]}:{where}")
        d = math.hypot(float(gl[ia]["x"]) - float(gl[ib]["x"]), float(gl[ia]["y"]) - float(gl[ib]["y"]))
        br.append("twin:offset:" + ("<0.01" if d < 0.01 else "<0.2" if d < 0.19 else "0.2-0.5" if d <= 0.5 else "0.5-1.0"))
        if ff["near"]:
            br.append("twin:frame-skipped-near-boundary")
        elif not ff["dup"]:
            br.append("twin:identities-evaluated:" + where)
    return br


# ---- numeric type variants (see `_nt`): decoration of cases, and scenes drawn on an integer map grid ----------------
# (1) `_decorate`: any case may carry type letters for every numeric field (object position / size / velocity / score /
#     yaw / point count, ego translation and yaw, the bound / confidence / point-number lists of both filters, the
#     pass/fail thresholds, the manager's matching thresholds and radii).  Values are unchanged, so nothing else moves.
# (2) `_gen_typed_case`: scenes whose coordinates are integral (or on a 1/2, 1/8 grid) IN THE FRAME THEY ARE EXPRESSED
#     IN - ego-relative for BASE_LINK, map coordinates for MAP, where the ego pose is mostly NOT integral (translation
#     off the grid, yaw != 0), so that the ego-relative coordinates the filters decide on are not integral although
#     every number handed over is.  A critical bound is then placed strictly between the true ego-relative coordinate
#     (or distance) of one object and that coordinate rounded to a neighbouring integer (down, up, nearest; the distance
#     of the component-wise rounded point): any evaluation that passes through the integer type of the inputs decides
#     that object differently.  Integral bounds / thresholds are made frequent as well.

def _letters(rng, n: int, p_uniform: float) -> str:
    u = rng.random()
    if u < p_uniform:
        return rng.choice("iiiIjsd") * n      # the whole tuple / list in one type (decides the dtype of np.asarray)
    if u < p_uniform + 0.25:
        return "".join(rng.choice(NT_LETTERS) for _ in range(n))
    return "f" * n


def _decorate_obj(rng, o, pu: float) -> None:
    o["nt"] = {"p": _letters(rng, 3, pu), "s": _letters(rng, 3, pu * 0.6), "v": _letters(rng, 3, pu * 0.6),
               "c": _letters(rng, 1, pu * 0.6), "y": rng.choice("fffid"), "n": rng.choice("iiIj")}


def _decorate_filter(rng, P, pu: float, mgr: bool) -> None:
    nt = {"a": _letters(rng, 1, pu), "b": _letters(rng, 1, pu), "conf": _letters(rng, 1, pu), "mp": rng.choice("iiIj")}
    if mgr:
        nt["radii"] = _letters(rng, 1, pu)
        nt["thr"] = _letters(rng, 1, pu)
    P["nt"] = nt


def _decorate(rng, case, p_obj: float, pu: float) -> None:
    """type letters for the numeric fields of the frames of `case` (the manager's are drawn per pool entry)"""
    for fr in case["frames"]:
        for o in fr["ests"] + fr["gts"]:
            if rng.random() < p_obj:
                _decorate_obj(rng, o, pu)
        if rng.random() < p_obj:
            fr["ego"]["nt"] = _letters(rng, 3, pu) + rng.choice("fffid")
        if rng.random() < p_obj:
            _decorate_filter(rng, fr["crit"], pu, False)
        if rng.random() < p_obj:
            fr["pf"]["nt"] = _letters(rng, 1, pu)


def _typed_ego(rng, frame):
    """ego pose of a typed scene: mostly off every grid the objects are on (non-integral translation, yaw != 0)"""
    u = rng.random()
    if u < 0.12:
        return {"yaw": rng.choice([0.0, 0.0, 1.0, -2.0, 0.5, _grid(rng, -3, 3, 64)]),  # integral translation, any yaw
                "tx": float(rng.randint(-2048, 2048)), "ty": float(rng.randint(-2048, 2048))}
    yaw = rng.choice([_grid(rng, -3, 3, 64) or 0.5, round(rng.uniform(-3.1, 3.1), 3) or 0.3, 0.0])
    big = 100000 if (frame == "map" and rng.random() < 0.15) else 2048
    def t():  # noqa: E306
        v = rng.random()
        if v < 0.45:
            return rng.randint(-big, big) + rng.choice([0.125, 0.25, 0.375, 0.5, 0.625, 0.75, 0.875])
        if v < 0.9:
            return round(rng.uniform(-big, big), 2)
        return float(rng.randint(-big, big))
    return {"yaw": yaw, "tx": t(), "ty": t()}


def _to_map(e, x, y):
    c, s = math.cos(e["yaw"]), math.sin(e["yaw"])
    return c * x - s * y + e["tx"], s * x + c * y + e["ty"]


def _from_map(e, mx, my):
    c, s = math.cos(e["yaw"]), math.sin(e["yaw"])
    dx, dy = mx - e["tx"], my - e["ty"]
    return c * dx + s * dy, -s * dx + c * dy


def _snap_frame(rng, fr, frame: str, den: int) -> None:
    """move every object of the frame onto the 1/den grid of the frame it is expressed in (ground truths stay distinct)"""
    taken = set()
    e = fr["ego"]
    for o in fr["gts"] + fr["ests"]:
        is_gt = o["id"] > 100
        if frame == "map":
            X, Y = _to_map(e, float(o["x"]), float(o["y"]))
        else:
            X, Y = float(o["x"]), float(o["y"])
        X, Y = round(X * den) / den, round(Y * den) / den
        if den == 1:
            o["z"] = float(math.floor(float(o["z"])))
        while is_gt and (o["label"], X, Y) in taken:
            X += 1.0
        if is_gt:
            taken.add((o["label"], X, Y))
        if frame == "map":
            o["mx"], o["my"] = X + 0.0, Y + 0.0
            o["x"], o["y"] = _from_map(e, X, Y)
        else:
            o["x"], o["y"] = X + 0.0, Y + 0.0
        if den == 1 and rng.random() < 0.5:
            for k in ("w", "l", "h"):
                o[k] = float(max(1, round(float(o[k]))))


def _roundings(v: float):
    return [float(math.floor(v)), float(math.floor(v)), float(math.ceil(v)), float(round(v))]


def _bound_between(rng, fr) -> bool:
    """move one bound of the frame's critical filter strictly between the true ego-relative coordinate (distance) of an
    object and that coordinate (distance) after rounding to a neighbouring integer; 0.0125 clear of both"""
    cr = fr["crit"]
    cands = [o for o in fr["ests"] + fr["gts"]
             if o["label"] != "FP" and (o["label"] in cr["labels"] or (o["label"] == "unknown" and o["id"] <= 100))]
    rng.shuffle(cands)
    for o in cands[:6]:
        x, y = abs(float(o["x"])), abs(float(o["y"]))
        if cr["mode"] == "box":
            key = rng.choice(["a", "b"])
            v = x if key == "a" else y
            alt = rng.choice(_roundings(v))
        else:
            key = rng.choice(["a", "a", "b"])
            v = math.hypot(x, y)
            f = rng.choice([math.floor, math.floor, math.ceil, round])
            alt = math.hypot(f(x), f(y))
        if abs(v - alt) < 0.05 or min(v, alt) < 0.5:
            continue
        b = v + (alt - v) * rng.choice([0.25, 0.375, 0.5, 0.625, 0.75])
        lst = [float(t) for t in cr[key]]
        other = [float(t) for t in cr["b" if key == "a" else "a"]]
        if cr["mode"] == "ring" and ((key == "a" and b <= max(other)) or (key == "b" and b >= min(other))):
            continue
        if o["label"] in cr["labels"] and rng.random() < 0.5:
            lst[cr["labels"].index(o["label"])] = b
        else:
            lst = [b] * len(lst)
        cr[key] = lst
        fr["between"] = [o["id"], key]
        return True
    return False


def _gen_typed_case(rng, pool, tier, frame=None):
    cands = [p for p in pool if frame is None or p[1] == frame]
    task, frame, policy, mgr = rng.choice(cands or pool)
    case = {"kind": "history", "task": task, "frame": frame, "policy": policy, "mgr": mgr, "frames": []}
    den = rng.choice([1, 1, 1, 1, 2, 8])
    for k in range(rng.choice([1, 1, 1, 2, 3])):
        fr = _gen_frame(rng, case, k, tier)
        fr["gts"], fr["ests"] = fr["gts"][: rng.choice([1, 2, 4, 6, 8])], fr["ests"][: rng.choice([0, 1, 2, 4, 6])]
        fr["ego"] = _typed_ego(rng, frame)
        cr = fr["crit"]
        if rng.random() < 0.35:  # integral bounds / thresholds
            cr["a"] = [float(max(1, round(float(t)))) for t in cr["a"]]
            cr["b"] = [float(max(1 if cr["mode"] == "box" else 0, round(float(t)))) for t in cr["b"]]
            if cr["mode"] == "ring":
                cr["a"] = [max(a, max(cr["b"]) + 1.0) for a in cr["a"]]
            if fr["pf"]["thr"] is not None and fr["pf"]["labels"] is not None:
                fr["pf"]["thr"] = [float(max(1, round(float(t)))) for t in fr["pf"]["thr"]]
        _snap_frame(rng, fr, frame, den)
        if rng.random() < 0.75:
            _bound_between(rng, fr)
        case["frames"].append(fr)
    _decorate(rng, case, 0.8, 0.6)
    for fr in case["frames"]:  # the object the bound was placed for: mostly handed over in one integer / single-precision type
        if fr.get("between") and rng.random() < 0.75:
            for o in fr["ests"] + fr["gts"]:
                if o["id"] == fr["between"][0]:
                    o.setdefault("nt", {})["p"] = rng.choice(["iii", "iii", "III", "jjj", "iIj", "sss"])
    return case


def generate(rng, tier) -> list:
    return table_witnesses() + _generate(rng, tier)


def _generate(rng, tier) -> list:
    n_pool = 36 if tier == "quick" else 150
    pool = []
    for i in range(n_pool):
        task = "fp_validation" if i % 3 == 2 else "detection"
        frame = "map" if i % 2 else "base_link"
        pool.append((task, frame, POLICIES[i % 3] if rng.random() < 0.5 else rng.choice(POLICIES), _gen_mgr(rng, frame)))
    n = 700 if tier == "quick" else 5000  # budget by case count (no environment variable decides coverage)
    cases = [_gen_case(rng, pool, tier) for _ in range(n)]
    # twin ground truths (drawn after the base cases, which therefore stay what they were for a given seed)
    n_twin = 220 if tier == "quick" else 1500
    cases += [_gen_twin_case(rng, pool, tier) for _ in range(n_twin)]
    # numeric type variants (drawn after everything else): scenes on an integer grid of their own frame (two thirds of them
    # in the MAP frame), type letters on a quarter of the cases generated above, and on 40% of the managers of the pool
    n_typed = 240 if tier == "quick" else 1600
    typed = [_gen_typed_case(rng, pool, tier, "map" if k % 3 else "base_link") for k in range(n_typed)]
    for c in cases:
        if rng.random() < 0.25:
            _decorate(rng, c, 0.6, 0.4)
    for _t, _f, _p, mgr in pool:
        if rng.random() < 0.4:
            _decorate_filter(rng, mgr, 0.5, True)
    cases += typed
    for k, c in enumerate(cases):  # a third of the cases also run the composed model end to end (no rng consumed)
        if k % 3 == 0:
            c["pipe"] = True
    return cases


# =============================================================================== corpus

def _obj(i, x, y, label="car", yaw=0.0, score=0.875, **kw):
    o = {"id": i, "x": x, "y": y, "z": 0.0, "yaw": yaw, "label": label, "w": 2.0, "l": 4.0, "h": 1.5, "score": score, "pts": 10}
    o.update(kw)
    return o


TABLE_KEYS = ["labelCorrect", "resultCorrect", "status"]
_NOTED = []


def _table_note():
    try:
        from .. import dt_match

        return dt_match.table_note(TABLE_KEYS)
    except Exception as e:  # noqa: BLE001 - the table machinery must never fail a check
        return "table:untranslatable", {"error": f"{type(e).__name__}: {e}"}


def _realise_status(val):
    """history cases (one frame, one estimate at a chosen offset from one ground truth, the pass/fail threshold placed by the
    order atom of the plane distance) realising a valuation of get_status / is_result_correct; PassFailResult.evaluate always
    selects the plane distance, so valuations of the other modes are not realisable through this entry point"""
    from .. import dt_match

    mode = dt_match._mode_of(val)
    if mode not in (None, "PLANEDISTANCE") or val.get("gt.none") is True or val.get("thr.none") is True:
        return []
    L4 = ["car", "bicycle", "pedestrian", "motorbike"]
    mgr = {"labels": L4, "mode": "box", "a": [100.0] * 4, "b": [100.0] * 4, "min_points": [0] * 4, "conf": None, "radii": None}
    crit = {"labels": L4, "mode": "box", "a": [30.0] * 4, "b": [30.0] * 4, "min_points": None, "conf": None}
    glab = "FP" if val.get("gt.fp") else "car"
    elab = "bicycle" if val.get("matchable") is False else "car"
    out = []
    for off, t in dt_match._pairs("PLANEDISTANCE", val, "thr")[:8]:
        if t != t or t in (float("inf"), -float("inf")) or t > 1e6:
            continue
        fr = {"time": 100000, "ego": {"yaw": 0.0, "tx": 0.0, "ty": 0.0}, "gts": [_obj(101, 5.0, 0.0, glab), _obj(102, 20.0, 5.0)],
              "ests": [_obj(1, 5.0 + off, 0.0, elab)], "crit": crit, "pf": {"labels": L4, "thr": [t] * 4}}
        for task in ("detection", "fp_validation"):
            for frame in ("base_link", "map"):
                out.append({"kind": "history", "task": task, "frame": frame, "policy": "default", "mgr": mgr, "frames": [fr]})
    return out


def extra_evidence():
    key, info = _table_note()
    return {"decision_tables": info, "decision_tables_status": key, "oracle_counters": dict(STATS)}


def table_witnesses():
    """cases realising the valuations on which a regenerated decision table and its model skeleton differ (empty on an
    unchanged tree); they are run FIRST"""
    try:
        from .. import dt_match

        return dt_match.witness_cases(["status", "resultCorrect"], _realise_status)
    except Exception:  # noqa: BLE001
        return []


def _corpus() -> list:
    L4 = ["car", "bicycle", "pedestrian", "motorbike"]
    mgr = {"labels": L4, "mode": "box", "a": [100.0] * 4, "b": [100.0] * 4, "min_points": [0] * 4, "conf": None, "radii": None}
    crit30 = {"labels": L4, "mode": "box", "a": [30.0] * 4, "b": [30.0] * 4, "min_points": None, "conf": None}
    pf2 = {"labels": L4, "thr": [2.0] * 4}
    cs = []
    # F2 (fixed): map-frame objects, critical filter narrower than the manager filter
    fr = {"time": 100000, "ego": {"yaw": 0.5, "tx": 1000.0, "ty": 2000.0},
          "gts": [_obj(101, 10.0, 0.0), _obj(102, 50.0, 0.0)], "ests": [_obj(1, 10.25, 0.0), _obj(2, 50.25, 0.0)],
          "crit": crit30, "pf": pf2}
    for frame in ("map", "base_link"):
        cs.append({"kind": "history", "task": "detection", "frame": frame, "policy": "default", "mgr": mgr, "frames": [fr]})
    # F5 (fixed): the same scene under a narrow then a wide critical filter (history of 2 frames)
    fr2 = copy.deepcopy(fr)  # same time stamp: the same FrameGroundTruth of the dataset is looked up again
    fr2["crit"] = dict(crit30, a=[80.0] * 4, b=[80.0] * 4)
    cs.append({"kind": "history", "task": "detection", "frame": "base_link", "policy": "default", "mgr": mgr, "frames": [fr, fr2]})
    # excluded point: two ground truths equal under __eq__, one matched (GT=2, TP=1, FN=0 is expected behaviour)
    frd = {"time": 100000, "ego": {"yaw": 0.0, "tx": 0.0, "ty": 0.0},
           "gts": [_obj(101, 5.0, 0.0), _obj(102, 5.0, 0.0, w=2.5)], "ests": [_obj(1, 5.125, 0.0)], "crit": crit30, "pf": pf2}
    cs.append({"kind": "history", "task": "detection", "frame": "base_link", "policy": "default", "mgr": mgr, "frames": [frd]})
    # FP-labelled ground truths: TN re-wrap (no threshold for FP), matched FP (threshold for every label), unmatched TN
    frf = {"time": 100000, "ego": {"yaw": -1.25, "tx": -300.0, "ty": 70.5},
           "gts": [_obj(101, 5.0, 0.0, "FP"), _obj(102, -8.0, 3.0, "FP"), _obj(103, 12.0, -4.0), _obj(104, 0.0, 20.0, "FP")],
           "ests": [_obj(1, 5.25, 0.0), _obj(2, -8.0, 3.5, "unknown"), _obj(3, 12.0, -2.0, "bicycle"), _obj(4, 25.0, 25.0)],
           "crit": crit30, "pf": pf2}
    frg = copy.deepcopy(frf); frg["time"] = 200000
    frg["pf"] = {"labels": None, "thr": {"default": 1.0, "FP": 1.0, "car": 1.0}}
    for task, frame in (("detection", "base_link"), ("detection", "map"), ("fp_validation", "map"), ("fp_validation", "base_link")):
        for pol in POLICIES:
            cs.append({"kind": "history", "task": task, "frame": frame, "policy": pol, "mgr": mgr, "frames": [frf, frg]})
    # exact ties on the bounds (strict inequalities) and the distance ring, empty frames
    ring = {"labels": L4, "mode": "ring", "a": [5.0, 13.0, 5.0, 5.0], "b": [1.0] * 4, "min_points": None, "conf": None}
    frt = {"time": 100000, "ego": {"yaw": 1.0, "tx": 10.0, "ty": -20.0},
           "gts": [_obj(101, 3.0, 4.0), _obj(102, 3.0, 3.875), _obj(103, 5.0, 12.0, "bicycle"), _obj(104, 1.0, 0.0), _obj(105, 0.0, -1.125)],
           "ests": [_obj(1, 3.0, 4.0), _obj(2, 3.0, 3.875), _obj(3, 4.875, 12.0, "bicycle"), _obj(4, 1.125, 0.0, "unknown")],
           "crit": ring, "pf": {"labels": ["car"], "thr": [1.0]}}
    fre = {"time": 200000, "ego": {"yaw": 0.0, "tx": 0.0, "ty": 0.0}, "gts": [], "ests": [], "crit": crit30, "pf": pf2}
    frn = {"time": 300000, "ego": {"yaw": 0.0, "tx": 0.0, "ty": 0.0}, "gts": [], "ests": [_obj(1, 1.0, 1.0)], "crit": crit30, "pf": pf2}
    frm = {"time": 400000, "ego": {"yaw": 0.0, "tx": 0.0, "ty": 0.0}, "gts": [_obj(101, 30.0, 0.0), _obj(102, 29.875, 30.0), _obj(103, 29.875, -29.875)],
           "ests": [], "crit": crit30, "pf": pf2}
    cs.append({"kind": "history", "task": "detection", "frame": "base_link", "policy": "allow_unknown", "mgr": mgr, "frames": [frt, fre, frn, frm]})
    cs.append({"kind": "history", "task": "fp_validation", "frame": "base_link", "policy": "default", "mgr": mgr, "frames": [fre, frn]})
    # "fp-label-exempt": FP-labelled ground truth beyond the manager's range and the critical box is still counted (TN);
    # its ordinary neighbour is not. Expected behaviour of _is_target_object, see STRICT_FP_REGION.
    frx = {"time": 100000, "ego": {"yaw": 0.0, "tx": 0.0, "ty": 0.0}, "gts": [_obj(101, 150.0, 0.0, "FP"), _obj(102, 150.0, 5.0)],
           "ests": [], "crit": crit30, "pf": pf2}
    for task in ("detection", "fp_validation"):
        cs.append({"kind": "history", "task": task, "frame": "map", "policy": "default", "mgr": mgr, "frames": [frx]})
    # twin ground truths: distinct objects 0.25 .. 0.9 m apart with the same label, heading, height and time stamp; the
    # detector finds one of them, the other must be FN (ordinary) / TN (FP-labelled).  Ego-frame scene, the same scene in a
    # map whose origin is ~1e5 m away on both axes (with and without ego yaw), and ~1e5 m away on one axis only.
    def ped(i, x, y, label="pedestrian", **kw):
        return _obj(i, x, y, label, yaw=0.25, w=0.625, l=0.625, h=1.75, z=1.0, **kw)

    egos = [{"yaw": 0.0, "tx": 0.0, "ty": 0.0}, {"yaw": 0.5, "tx": 88990.0, "ty": 42000.0}, {"yaw": 0.0, "tx": -101250.5, "ty": 97000.25},
            {"yaw": -2.0, "tx": 120000.0, "ty": -64000.0}, {"yaw": 1.0, "tx": 99000.0, "ty": 12.0}]
    pf_all = {"labels": None, "thr": {"default": 1.0, "FP": 1.0, "car": 1.0}}
    scenes = []
    # one matched, one not (either list order, along x / along y / diagonal), a car as ordinary context
    scenes.append(([ped(101, 10.0, 3.0), ped(102, 10.4, 3.0), _obj(103, -12.0, 6.0)], [ped(1, 9.96875, 3.0), _obj(2, -12.0, 6.125)], pf2))
    scenes.append(([ped(101, 10.0, 3.9), ped(102, 10.0, 3.0), _obj(103, -12.0, 6.0)], [ped(1, 10.0, 2.96875)], pf2))
    scenes.append(([ped(101, -7.25, -4.0), ped(102, -7.0, -3.75)], [ped(1, -7.28125, -4.0)], pf_all))
    # a row of three, the middle one detected; both unmatched; matched with the wrong label (FP + FN, the twin FN as well)
    scenes.append(([ped(101, 5.0, 0.0), ped(102, 5.5, 0.0), ped(103, 6.0, 0.0)], [ped(1, 5.5, 0.03125)], pf2))
    scenes.append(([ped(101, 10.0, 3.0), ped(102, 10.3, 3.0)], [_obj(1, -20.0, 0.0)], pf2))
    scenes.append(([ped(101, 10.0, 3.0), ped(102, 10.6, 3.0)], [ped(1, 9.96875, 3.0, "bicycle")], pf2))
    # FP-labelled twins: TN re-wrap + TN (no threshold for FP), matched FP + TN (threshold for every label), both TN
    scenes.append(([ped(101, 10.0, 3.0, "FP"), ped(102, 10.4, 3.0, "FP"), _obj(103, -12.0, 6.0)], [ped(1, 9.96875, 3.0)], pf2))
    scenes.append(([ped(101, 10.7, 3.0, "FP"), ped(102, 10.0, 3.0, "FP")], [ped(1, 9.96875, 3.0)], pf_all))
    scenes.append(([ped(101, 10.0, 3.0, "FP"), ped(102, 10.0, 3.25, "FP")], [], pf2))
    # two millimetres apart (still two objects, also next to 1e5): one matched exactly, the other not
    scenes.append(([ped(101, 10.0, 3.0), ped(102, 10.001953125, 3.0)], [ped(1, 10.0, 3.0)], pf2))
    for n, (gts, ests, pf) in enumerate(scenes):
        for j, ego in enumerate(egos):
            frame = "base_link" if j == 0 else "map"
            tasks = ("detection", "fp_validation") if (gts[0]["label"] == "FP" and j < 2) else ("detection",)
            for task in tasks:
                cs.append({"kind": "history", "task": task, "frame": frame, "policy": POLICIES[(n + j) % 3], "mgr": mgr,
                           "frames": [{"time": 100000, "ego": ego, "gts": copy.deepcopy(gts), "ests": copy.deepcopy(ests),
                                       "crit": crit30, "pf": pf, "twins": [[101, 102]] + ([[102, 103]] if len(gts) == 3 and gts[2]["label"] == gts[1]["label"] else [])}]})
    # numeric types: a scene surveyed on an integer map grid (positions handed over as Python ints / numpy integers /
    # float32), ego pose off the grid, x/y box whose bounds fall between the true ego-relative coordinate of some objects and
    # that coordinate cut to an integer; the same scene with integer-typed bounds, thresholds and ego translation
    ego = {"yaw": 0.3, "tx": 100.5, "ty": 50.25}
    box = {"labels": L4, "mode": "box", "a": [20.2, 30.0, 30.0, 30.0], "b": [10.4, 30.0, 30.0, 30.0], "min_points": None, "conf": None}
    sel = {"in": [], "x": [], "y": [], "out": []}
    for gx in range(74, 128, 2):
        for gy in range(30, 72, 2):
            x, y = _from_map(ego, gx, gy)
            ax, ay = abs(x), abs(y)
            if min(abs(ax - 20.2), abs(ay - 10.4), ax - math.floor(ax), ay - math.floor(ay)) < 0.02:
                continue
            k = ("in" if ax < 20.2 and ay < 10.4 else "x" if math.floor(ax) < 20.2 < ax and ay < 10.4
                 else "y" if math.floor(ay) < 10.4 < ay and ax < 20.2 else "out" if ax > 22 and ay > 12 else None)
            if k and len(sel[k]) < 2:
                sel[k].append((gx, gy, x, y))
    pts = sel["in"] + sel["x"] + sel["y"] + sel["out"][:1]
    for letters, ego_nt, crit_nt in (("iii", None, None), ("III", "fffd", {"a": "d", "b": "s"}), ("jij", None, {"a": "f", "b": "f"}),
                                     ("sss", "sssf", None), ("iif", None, None), ("fff", None, None)):
        gts = [_obj(101 + j, x, y, mx=float(gx), my=float(gy), nt={"p": letters, "s": "iii", "v": "iii", "c": "i", "y": "f", "n": "I"})
               for j, (gx, gy, x, y) in enumerate(pts)]
        ests = []
        for j, (gx, gy, x, y) in enumerate(pts[::2]):
            ests.append(_obj(1 + j, x, y, mx=float(gx), my=float(gy), score=0.875, nt={"p": letters, "s": "fff", "v": "fff", "c": "s", "y": "f", "n": "i"}))
        frn_ = {"time": 100000, "ego": dict(ego, **({"nt": ego_nt} if ego_nt else {})), "gts": gts, "ests": ests,
                "crit": dict(box, **({"nt": crit_nt} if crit_nt else {})), "pf": {"labels": ["car"], "thr": [1.0], "nt": "i"}}
        for task in ("detection",):
            cs.append({"kind": "history", "task": task, "frame": "map", "policy": "default",
                       "mgr": dict(mgr, nt={"a": "i", "b": "I", "mp": "I", "thr": "i"}), "frames": [frn_]})
    # the F2 scene again with every number that is integral handed over as an integer (both renderings), integral ego pose
    fri = copy.deepcopy(fr)
    fri["ego"] = {"yaw": 0.0, "tx": 1000.0, "ty": -2000.0, "nt": "iiii"}
    for o in fri["gts"] + fri["ests"]:
        o["nt"] = {"p": "iii", "s": "iii", "v": "iii", "c": "i", "y": "i", "n": "j"}
    fri["crit"] = dict(crit30, nt={"a": "i", "b": "j", "conf": "i", "mp": "i"})
    fri["pf"] = dict(pf2, nt="I")
    for frame in ("map", "base_link"):
        cs.append({"kind": "history", "task": "detection", "frame": frame, "policy": "default",
                   "mgr": dict(mgr, nt={"a": "i", "b": "i", "mp": "j", "thr": "i", "radii": "i"}), "frames": [fri]})
    for c in cs:
        c["pipe"] = True
    return cs


# =============================================================================== shrinking / search

def _strip_types(case, what: str):
    """`case` without the type letters of the objects / the frame-level fields / the manager (None if there are none)"""
    c = copy.deepcopy(case)
    hit = False
    if what == "mgr":
        c["mgr"] = dict(c["mgr"])
        hit = c["mgr"].pop("nt", None) is not None
    for fr in c["frames"]:
        ds = fr["ests"] + fr["gts"] if what == "obj" else [fr["ego"], fr["crit"], fr["pf"]] if what == "frame" else []
        for d in ds:
            hit = (d.pop("nt", None) is not None) or hit
    return c if hit else None


def shrink(case):
    fs = case["frames"]
    for what in ("mgr", "frame", "obj"):  # does the failure need the numeric types at all?
        c = _strip_types(case, what)
        if c is not None:
            yield c
    if len(fs) > 1:
        for k in range(len(fs)):
            c = copy.deepcopy(case); del c["frames"][k]
            yield c
    for k, fr in enumerate(fs):
        for j in range(len(fr["ests"])):
            c = copy.deepcopy(case); del c["frames"][k]["ests"][j]
            yield c
        if all(f2["time"] != fr["time"] for f2 in fs[:k]):
            for j in range(len(fr["gts"])):
                c = copy.deepcopy(case)
                for f2 in c["frames"]:  # frames with the same time stamp share one dataset frame
                    if f2["time"] == fr["time"]:
                        del f2["gts"][j]
                yield c
        if (fr["ego"]["yaw"] != 0.0 or fr["ego"]["tx"] != 0.0) and not any("mx" in o for o in fr["ests"] + fr["gts"]):
            c = copy.deepcopy(case)
            for f2 in c["frames"]:
                if f2["time"] == fr["time"]:
                    f2["ego"] = {"yaw": 0.0, "tx": 0.0, "ty": 0.0}
            yield c
        if fr["crit"].get("min_points") or fr["crit"].get("conf"):
            c = copy.deepcopy(case); c["frames"][k]["crit"]["min_points"] = None; c["frames"][k]["crit"]["conf"] = None
            yield c


def search(rng, st, disagreements) -> list:
    """neighbourhood of the diverging cases: the other rendering, every policy, both tasks"""
    out = table_witnesses()
    for d in disagreements[:8]:
        c0 = d["case"]
        for frame in ("base_link", "map"):
            for pol in POLICIES:
                c = copy.deepcopy(c0); c["frame"] = frame; c["policy"] = pol
                out.append(c)
    return out


def corpus():
    """table witnesses (empty on an unchanged tree) first, then the stored corner cases"""
    return table_witnesses() + list(_corpus())
