"""C02 — matching prefers label-compatible pairs, then best score (no blocking pair).

Same tie to the code as C01 (`harness/props/c01.py`: real objects, real `get_object_results`, exact scores handed
to the Lean model `PEval.Matching.getObjectResults`, cell-by-cell table comparison; results compared as sets, another
winner of an exact tie accepted iff the Lean certificate checker admits it as a run of `TwoStageRun`), with contested scenes
over-represented.  No error clause: calls outside the quantifier (`c01.out_of_domain`) get no verdict.  The oracle is independent of the model: an O(n^2) blocking-pair scan over the real results and,
when no two candidate scores tie, a from-scratch sorted-edge two-stage greedy whose assignment must be equal.
"""
from __future__ import annotations

from fractions import Fraction
from typing import Dict, List, Optional

from . import c01 as base

PROP = "C02"
THEOREMS = [
    "PEval.C02." + t
    for t in [
        "argBest_optimal", "argBest_some_of_ne_nil", "no_blocking_compatible", "no_blocking_incompatible",
        "stage1_exhaustive", "refines_greedy_spec", "greedy_unique_of_no_ties", "pairs_independent_of_index_order",
        "valid_is_code_table",
        # the result WITH ties (lean/PEval/Lemmas/MatchingRowMajor.lean): the tie-break of the code is "first best available
        # cell in row-major order of the remaining table"; the rule is stated on the table alone, every step of the model is
        # exactly such a pick, the rule is functional on every table, the results are its unique outcome (no NoTies hypothesis)
        "pick_is_first_best_row_major", "loop_stops_iff_nothing_available", "remaining_lists_increasing", "pick_is_lex_least",
        "refines_row_major_spec", "row_major_spec_functional", "result_is_the_row_major_greedy",
        "row_major_spec_refines_any_best",
        # other winners of exact ties: the certificate checker run by the driver on the real pairs (lean/PEval/Lemmas/
        # MatchingCertificate.lean) is sound for the any-best relation, and without ties accepts the result only
        "certificate_sound", "certificate_unique_of_no_ties",
        # uniqueness of the any-best relation under the weaker, decidable hypothesis "no step has two best candidates"
        "noBestTies_of_noTies", "greedy_unique_of_no_best_ties", "pairs_independent_of_index_order_local",
        # totality companions of the .ok-conditional statements (details: PEval.C01.cell_raises_iff, raises_first_failing_cell)
        "total_of_wellformed", "raises_iff", "no_blocking_pair_of_wellformed",
    ]
] + (
    # decision table of MatchingLabelPolicy.is_matchable, regenerated from the source on every run (harness/dt_match.py)
    ["PEval.KernelMatchable.matchable_table_check", "PEval.KernelMatchable.matchable_code_table_eq_model", "PEval.KernelMatchable.matchable_eq_skeleton", "PEval.KernelMatchable.matchable_valuation_consistent", "PEval.KernelMatchable.matchable_code_table_eq_isMatchable", "PEval.KernelMatchable.matchable_code_table_eq_isMatchable_AP", "PEval.KernelMatchable.table_fp_gt_compatible", "PEval.KernelMatchable.table_allow_any", "PEval.KernelMatchable.table_strict_iff"]
)
RULE = (
    "as C01, with clusters of estimates around one ground truth (70 %), exact duplicates and symmetric offsets (exact "
    "ties), unknown-labelled estimates and FP-labelled ground truth over-represented, numeric type variants of all "
    "numeric parameters (int / numpy scalar types / arrays, same values) in 35 % of the cases; C01's grid and random variation of "
    "the path-selecting fields (object kind x label family x uuids x evaluation task x uuid_matching_first; ROI-less cases are "
    "outside C02: no scores) is run with C02's oracle as well; a case is non-trivial when both "
    "lists are non-empty; the independent greedy is compared on the cases whose candidate scores are pairwise different"
)
TRUSTED = base.TRUSTED + [
    "oracle: 'matchable' = real frame_id equality and real is_better_than(threshold of the ground truth's label); "
    "label compatibility is re-derived from the label names by the oracle's own rule; scores are the real values",
]
ASSUMPTIONS = base.ASSUMPTIONS
EXHAUSTIVE = False

corpus = base.corpus
run_impl = base.run_impl
model_requests = base.model_requests
compare = base.compare
shrink = base.shrink
search = base.search


def generate(rng, tier: str) -> list:
    return base.generate(rng, tier, contested=0.7, manager=0.04)


def _compatible(policy: str, e: dict, g: dict) -> bool:
    """the documented label rule, from the label names"""
    if g["label"] == base.FP or policy == "ALLOW_ANY":
        return True
    if policy == "ALLOW_UNKNOWN":
        return e["label"] == g["label"] or e["label"] == "unknown"
    return e["label"] == g["label"]


def _scene(case: dict, out: dict):
    """matchable cells with exact scores and compatibility, by positions in the matcher's input lists"""
    E = [case["ests"][k] for k in out["in_e"]]
    G = [case["gts"][k] for k in out["in_g"]]
    score: Dict[tuple, Fraction] = {}
    compat: Dict[tuple, bool] = {}
    for i, row in enumerate(out["facts"]):
        for j, (same, within, _ok) in enumerate(row):
            if same and (within is None or within is True):
                score[(i, j)] = Fraction(out["vals"][i][j])
                compat[(i, j)] = _compatible(case["policy"], E[i], G[j])
    return E, G, score, compat


def _better(case: dict, a: Fraction, b: Fraction) -> bool:
    return a > b if case["mode"] in ("iou2d", "iou3d") else a < b


def independent_greedy(case: dict, score: dict, compat: dict) -> set:
    """sorted-edge formulation of the documented assignment (valid when no two scores tie): walk the compatible
    candidate pairs from best to worst taking every pair whose members are both free, then all candidate pairs"""
    maximize = case["mode"] in ("iou2d", "iou3d")
    order = sorted(score, key=lambda p: score[p], reverse=maximize)
    used_e, used_g, pairs = set(), set(), set()
    for only_compat in (True, False):
        for p in order:
            if only_compat and not compat[p]:
                continue
            if p[0] in used_e or p[1] in used_g:
                continue
            used_e.add(p[0])
            used_g.add(p[1])
            pairs.add(p)
    return pairs


def _analyse(case: dict, out: dict) -> dict:
    """blocking-pair scan; returns counters and the first violation (if any)"""
    E, G, score, compat = _scene(case, out)
    pos_e = {k: i for i, k in enumerate(out["in_e"])}
    pos_g = {k: i for i, k in enumerate(out["in_g"])}
    pairs = [(pos_e[e], pos_g[g]) for e, g in out["results"] if g is not None and e in pos_e and g in pos_g]
    pe = {i: j for i, j in pairs}
    pg = {j: i for i, j in pairs}
    info = {"violation": None, "unmatched_compatible": 0, "unmatched_incompatible": 0, "preempted": 0,
            "ties": len(set(score.values())) != len(score), "pairs": set(pairs), "score": score, "compat": compat}

    def holds(i, j, s, need_compat_and_score):
        for (a, b) in ((i, pe.get(i)), (pg.get(j), j)):
            if a is None or b is None:
                continue
            sp = score.get((a, b))
            cp = compat.get((a, b), _compatible(case["policy"], E[a], G[b]))
            not_worse = sp is not None and not _better(case, s, sp)
            if need_compat_and_score and cp and not_worse:
                return True
            if not need_compat_and_score and (cp or not_worse):
                return True
        return False

    for (i, j), s in score.items():
        if (i, j) in info["pairs"]:
            continue
        if compat[(i, j)]:
            info["unmatched_compatible"] += 1
            if not holds(i, j, s, True) and info["violation"] is None:
                info["violation"] = (
                    f"blocking pair: estimate {out['in_e'][i]} and ground truth {out['in_g'][j]} are matchable and "
                    f"label-compatible (score {float(s)}), are not matched together, and neither is matched compatibly "
                    f"to a partner scoring at least as well; results {out['results']}")
        else:
            info["unmatched_incompatible"] += 1
            if not holds(i, j, s, False) and info["violation"] is None:
                info["violation"] = (
                    f"blocking pair: estimate {out['in_e'][i]} and ground truth {out['in_g'][j]} are matchable "
                    f"(label-incompatible, score {float(s)}), are not matched together, and neither is matched "
                    f"compatibly or to a partner scoring at least as well; results {out['results']}")
            # the stage order mattered: an incompatible pair strictly better than a member's compatible match
            for (a, b) in ((i, pe.get(i)), (pg.get(j), j)):
                if a is not None and b is not None and (a, b) in score and compat[(a, b)] and _better(case, s, score[(a, b)]):
                    info["preempted"] += 1
                    break
    return info


def oracle(case: dict, out: dict) -> Optional[str]:
    # C02 has no error clause and quantifies over "all object sets as in C01 ..., all radius settings": calls outside that
    # domain (base.out_of_domain: radius list without an entry for a target label, IoU threshold outside [0, 1], ROI-less
    # objects) get no verdict, whatever the library does with them
    if base.out_of_domain(case) is not None:
        base.STATS["c02_no_claim:out-of-domain"] += 1
        return None
    if "err" in out:
        call = "PerceptionEvaluationManager.add_frame_result" if case.get("kind") == "manager" else "get_object_results"
        return f"{call} raised {out['err']} on an input inside the property's quantifier: no assignment returned"
    if "facts" not in out or "results" not in out:
        base.STATS["c02_no_claim:" + ("roi-less(no scores)" if base.is_roiless(case) else "unobservable:table-facts")] += 1
        return None
    info = _analyse(case, out)
    if info["violation"]:
        return info["violation"]
    base.STATS["c02_blocking_scans"] += 1
    base.STATS["c02_unmatched_candidate_pairs_scanned"] += info["unmatched_compatible"] + info["unmatched_incompatible"]
    if not info["ties"]:
        # "When no two candidate scores tie, the result is exactly the documented two-stage greedy assignment" (as a SET of
        # pairs: the statement does not order the result list)
        want = independent_greedy(case, info["score"], info["compat"])
        base.STATS["c02_independent_greedy_compared"] += 1
        if want != info["pairs"]:
            ids = sorted((out["in_e"][i], out["in_g"][j]) for i, j in want)
            return (f"no two candidate scores tie, but the result is not the documented two-stage greedy assignment: "
                    f"expected pairs {ids}, got {out['results']}")
    return None


def branches(case: dict, out: dict) -> List[str]:
    b = base.branches(case, out)
    if "err" in out or "trivial" in b or "facts" not in out or "results" not in out or base.out_of_domain(case) is not None:
        return b
    info = _analyse(case, out)
    b.append("candidate-scores:" + ("tie" if info["ties"] else "pairwise-different(greedy-compared)"))
    if info["unmatched_compatible"]:
        b.append("scan:unmatched-compatible-pair")
    if info["unmatched_incompatible"]:
        b.append("scan:unmatched-incompatible-pair")
    if info["preempted"]:
        b.append("compatible-preempts-better-incompatible")
    return b


def extra_evidence() -> dict:
    return base.extra_evidence()
