"""C11 — classification pairs objects by identity and scores them by label agreement.

Tie to the code: REAL ROI-less `DynamicObject2D` lists go through the real `get_object_results`,
`ClassificationAccuracy`, `divide_objects(_to_num)` and `ClassificationMetricsScore._summarize`; the same
lists go to the Lean model (`PEval.Model.Classification`), pairs are compared by harness id in order,
counts exactly, scores within 1e-9 (inf / nan exactly).

Manager level (kind 'manager'): the same statement where a user observes it -- a real `PerceptionEvaluationManager`
(`evaluation_task="classification2d"`, no dataset) is given hand-made frames through `add_frame_result` and asked for
`get_scene_result()`; the oracle reads `frame_result.object_results` and the `ClassificationMetricsScore` of every frame's
and of the scene's `MetricsScore` (`MetricsScore.evaluate_classification`); the Lean model pairs and scores every frame and
scores the pooled scene.

The oracle is independent of the model: pairing rules re-derived from uuids / labels / cameras, one-to-one
use, the label stage's precedence (as many equally-labelled pairs as any one-to-one same-camera pairing has), THE
maximality clause as the property words it -- the number of LABEL-CORRECT pairs (the TP count the metrics use:
equal labels, or a ground truth with the FP label) is the largest over all one-to-one same-camera pairings every
pair of which the rule can form (label-first: equal label or equal uuid, Lean `PEval.C11.RuleAdmissible`;
uuid-first: equal uuid), computed per camera by exhaustive search (<= 4+4) / augmenting paths -- metric formulas
recomputed in Fractions and their ranges.

Known finding C11-N1 (`known_finding`): with an FP-labelled ground truth the label-first pairing is NOT always maximal
in that sense (the label stage pairs equal labels only, greedily in list order).  A failure of the maximality clause is
attributed to it iff nothing else fails, the mode is label-first, every camera (frame) where it fails holds an
FP-labelled ground truth, the shortfall is at most their number (Lean: tlr_tp_maximum_up_to_fp; without such a ground
truth the count IS maximal: tlr_tp_maximum) and the results are exactly the greedy two-stage pairing in list order.
Stored replays: harness/corpus/c11/n1_*.json.
"""
from __future__ import annotations

import itertools
import math
from fractions import Fraction

from .. import core

PROP = "C11"
EXHAUSTIVE = True  # label assignments x layouts listed in RULE; layouts and the larger sets are sampled
RULE = (
    "exhaustive: every label assignment over 3 labels for every (n_est, n_gt) <= 3+3 (quick) / 4+4 (thorough, capped "
    "to the time budget) x fixed+seeded camera/uuid layouts (2 cameras, uuids unique per side and camera) x "
    "{TrafficLightLabel with uuid_matching_first in {False, True}, AutowareLabel}; one sweep with the FP label among "
    "the three (both sides, FP a target label); one sweep with estimates over {green, red} and ground truths over {green, red, FP} "
    "for every (n_est, n_gt) <= 3+3 (thorough 4+4, capped), fixed + seeded layouts incl. two cameras, both uuid-first settings, FP no "
    "target label (finding C11-N1 is hit here on fixed layouts, independent of the seed); stored replays harness/corpus/c11/*.json; "
    "seeded random sets up to 9+9 with 5 labels, 4 camera frames (incl. CAM_TRAFFIC_LIGHT), both tasks, "
    "random target-label lists, mixed label families; a malformed stream (null uuids, duplicate uuids per camera). "
    "per-label bucketing: (a) the aligned-uuid sweep over 3 labels, (n_est, n_gt) <= 3+3, repeated for every PROPER "
    "non-empty target subset (both label families, both uuid-first settings); (b) kind 'divide': result lists built "
    "directly (fresh estimate / ground-truth objects per result) -- EVERY ordered list of <= 4 results over 3 labels "
    "(estimate label x {ground-truth label, no ground truth} = 12 result types, so every listing order of every "
    "multiset) x all 7 non-empty target subsets, plus seeded lists of <= 8 results over 5 labels with unpaired "
    "ground truths and shuffled target lists. "
    "manager level (kind 'manager'): every label assignment over 3 labels for (n_est, n_gt) <= 2+2 as a one-frame scene and as a "
    "two-frame scene (second frame perfect), both label families, both uuid-first settings, target lists of 2 and 3 labels; "
    "the FP-on-the-ground-truth-side sweep (<= 2+2, thorough 3+3; FP-labelled ground truths are kept by the manager although FP "
    "is no target label) as one- and two-frame scenes, both settings; "
    "seeded scenes (about every fifth non-perfect one with FP-labelled ground truths) of 1-4 frames with up to 5+5 objects per frame in 1-3 of 4 camera frames (incl. CAM_TRAFFIC_LIGHT), 1-4 target "
    "labels, objects with labels outside the target list, empty sides / empty frames, every 8th scene perfect. "
    "non-trivial = both lists non-empty (manager: in some frame); distinct = distinct canonical case"
)
THEOREMS = [
    "PEval.C11." + t
    for t in [
        "pair_same_camera", "pair_members", "pair_used_once", "generic_total", "generic_pair_iff_same_uuid",
        "generic_fp_tail", "generic_null_uuid_error", "tlr_total", "tlr_null_uuid_error", "tlr_result_split", "tlr_stage1_maximal",
        "tlr_stage1_class_count", "tlr_stage2_pairs_by_uuid", "tlr_stage2_pairs_incorrect",
        "tlr_uuid_first_iff_same_uuid", "tlr_correct_pairs_maximum", "tp_le_num_gt", "metrics_def",
        "metrics_in_unit", "metrics_in_unit_results", "metrics_all_one", "metrics_all_one_results",
        "summarize_def", "summarize_in_unit", "summarize_all_one",
        # manager level: a scene pools the frames
        "pooled_counts", "scene_counts_sum", "countTp_sceneFrames_le", "scene_in_unit", "scene_all_one",
        # decision tables of the pairing kernels extracted from the real code (harness/dt_c11.py), regenerated on every run
        "pair_table_check", "pair_code_table_eq_model", "pair_code_table_eq_skel", "pair_code_table_eq_model_on_index",
        "table_generic_1x1", "table_tlr_1x1",
        # relabelling invariance (lean/PEval/Lemmas/ClassificationSim.lean): the tables speak about ALL inputs of their shapes
        "pairing_relabelling_invariant", "pairing_index_form", "pair_table_rows_present", "table_pairing_is_model",
        # label-correct (TP) count vs equal-label count: maximum of the count the metrics use, the FP-label case exactly,
        # uuid-first maximality
        "tp_eq_equal_plus_fp_only", "tp_eq_equal_of_no_fp_label", "tlr_tp_maximum", "tlr_tp_exact",
        "tlr_tp_maximum_up_to_fp", "tlr_tp_not_maximal_with_fp_label", "tlr_tp_not_maximal_1x1", "tlr_uuid_first_maximum",
    ]
] + ["PEval.ClassificationDT.skel_eq_model_on_index"]
TRUSTED = [
    "DynamicObject2D has no __eq__/__hash__: `in` and list.remove work by identity; the model uses the harness id",
    "harness/dt_c11.py + harness/dtable.py + harness/dt_multi.py (decision-table translator): stub objects (a subclass of the real "
    "DynamicObject2D exposing only uuid / frame_id / semantic_label / roi=None, identity semantics for `in` / `remove`), Boolean "
    "equality atoms treated as independent (no transitivity, no uniqueness of uuids: an over-approximation), at most two estimates "
    "and two ground truths, non-null uuids, the encoding of a result list as a number; the skeleton is tied to the model by "
    "exhaustive kernel evaluation on index objects (the model's loops with the tests as parameters), not by a proof over all objects",
    "divide_objects / divide_objects_to_num (objects_filter.py) are used by the harness to build the per-label buckets "
    "exactly as PerceptionFrameResult.evaluate_frame / get_scene_result do; the Lean model takes the buckets as inputs, "
    "the ORACLE recomputes them from the result list (est label, else ground-truth label) and the ground truths",
]
TRUSTED += [
    "the signature of known finding C11-N1 compares the real results with a Python re-statement of the greedy two-stage pairing "
    "(`_two_stage`, list order); it is used only to decide KNOWN-FINDING vs VIOLATION for a case whose maximality clause already "
    "failed, never by the oracle; the maximum itself is computed without it (exhaustive search <= 4+4, augmenting paths above, "
    "cross-checked against each other and against literal enumeration during development)",
    "kind 'manager': a manager built with dataset_paths=[] (nothing is loaded); matplotlib's figure creation is short-cut (all "
    "managers of the process share one figure; the visualizer is never used); which objects reach the pairing is taken from the "
    "documented meaning of target_labels (label in the list, and every FP-labelled object whatever the list says; the cases do not "
    "use 'unknown' outside the list, no estimate carries the FP label); "
    "the scene's per-label result lists are not observable, the harness pools the frames' lists the way get_scene_result does "
    "([[]] + one list per frame, ground-truth numbers summed) for the model, the ORACLE counts from the pairs",
]
ASSUMPTIONS = [
    "objects are ROI-less DynamicObject2D, distinct Python objects; uuids non-null and unique per side and camera "
    "(the property's domain) for the oracle; null / duplicate uuids are compared with the model only (error kinds)",
    "the [0,1] range of per-label buckets is asserted only when no ground truth carries the FP label: "
    "ClassificationAccuracy takes num_ground_truth from its caller and an FP-labelled ground truth makes every paired "
    "estimate label-correct without being counted in the estimate's label bucket (see report: recall 2.0)",
    "maximality is asserted for the count the metrics use (label-correct pairs: equal labels, or the ground truth carries the FP "
    "label) against every one-to-one same-camera pairing all of whose pairs the rule can form -- label-first: equal label or equal "
    "uuid (Lean RuleAdmissible); uuid-first: equal uuid (there the answer is checked to be exactly the set of same-uuid same-camera "
    "pairs). A pair that is label-correct ONLY through the FP label and shares no uuid (estimate GREEN/a against ground truth FP/b) "
    "cannot be formed by the rule and is no competitor, so leaving it unpaired is not reported (Lean tlr_tp_not_maximal_1x1 states "
    "that behaviour). Separately the label stage's precedence is asserted: as many EQUALLY-labelled pairs as any one-to-one "
    "same-camera pairing has (label-first)",
    "known finding C11-N1: a failure of the maximality clause alone, label-first, with an FP-labelled ground truth in every camera "
    "(and frame) where it fails, a shortfall of at most their number there, and results identical to the greedy two-stage pairing in "
    "list order, is reported as KNOWN-FINDING, not as a violation; any maximality failure without an FP-labelled ground truth, with "
    "a larger shortfall, with other results, in uuid-first mode, or next to any other failing clause is a violation",
    "manager level: the [0,1] range and the 'all 1' statement are not asserted for a frame (scene) with an FP-labelled ground truth "
    "(same reason as for the per-label buckets above)",
]

TL = ["green", "red", "yellow", "unknown", "false_positive"]
AW = ["car", "bus", "pedestrian", "unknown", "false_positive"]
CAMS = ["cam_front", "cam_back", "cam_traffic_light", "cam_traffic_light_near"]
UU = ["a", "b", "c", "d", "e", "f", "g", "h", "i", "j", "k", "l"]

_C = {}


def _mods():
    if not _C:
        from perception_eval.common.evaluation_task import EvaluationTask
        from perception_eval.common.label import AutowareLabel, Label, TrafficLightLabel
        from perception_eval.common.object2d import DynamicObject2D
        from perception_eval.common.schema import FrameID
        from perception_eval.evaluation.matching.objects_filter import divide_objects, divide_objects_to_num
        from perception_eval.evaluation.metrics.classification.accuracy import ClassificationAccuracy
        from perception_eval.evaluation.metrics.classification.classification_metrics_score import (
            ClassificationMetricsScore,
        )
        from perception_eval.evaluation.result.object_result import DynamicObjectWithPerceptionResult
        from perception_eval.evaluation.result.object_result import get_object_results

        _C.update(locals())
        _C["lab"] = {
            "tl": {m.value: m for m in TrafficLightLabel.__members__.values()},
            "aw": {m.value: m for m in AutowareLabel.__members__.values()},
        }
        _C["frame"] = {m.value: m for m in FrameID.__members__.values()}
        _C["task"] = {m.value: m for m in EvaluationTask.__members__.values()}
    return _C


# ----------------------------------------------------------------------------- cases
# object = [label, frame, uuid|None] ; family per side ("fe", "fg")

def _case(fam, uf, ests, gts, targets=None, task="classification2d", fg=None, split=0, domain=True):
    return {"kind": "pair", "fe": fam, "fg": fg or fam, "task": task, "uf": bool(uf), "ests": ests, "gts": gts,
            "targets": list(targets) if targets is not None else None, "split": split, "domain": domain}


def _layouts(ne, ng, rng, n_random):
    """camera / uuid layouts: (cams_e, uu_e, cams_g, uu_g) with uuids unique per side and camera"""
    out = []
    c0, c1 = CAMS[0], CAMS[1]
    ue, ug = UU[:ne], UU[:ng]
    out.append(([c0] * ne, ue, [c0] * ng, ug))  # one camera, uuids aligned
    out.append(([c0] * ne, ue, [c0] * ng, list(reversed(UU[1:ng + 1]))))  # shifted + reversed: partly disjoint
    # two cameras, the same uuid reused across cameras
    ce = [c0, c1, c0, c1][:ne]
    cg = [c0, c0, c1, c1][:ng]
    out.append((ce, ["a", "a", "b", "b"][:ne], cg, ["a", "b", "a", "b"][:ng]))
    for _ in range(n_random):
        cams = rng.sample(CAMS, 2)
        def side(n):
            cs = [rng.choice(cams) for _ in range(n)]
            used = {}
            us = []
            for c in cs:
                pool = [u for u in UU[: max(ne, ng) + 1] if u not in used.setdefault(c, set())]
                u = rng.choice(pool)
                used[c].add(u)
                us.append(u)
            return cs, us
        ce, ue_ = side(ne)
        cg, ug_ = side(ng)
        out.append((ce, ue_, cg, ug_))
    # drop duplicates
    seen, res = set(), []
    for l in out:
        k = repr(l)
        if k not in seen:
            seen.add(k)
            res.append(l)
    return res


def _sweep(rng, nmax, labels, fam, ufs, n_random, cap=None, target_sets=None, n_layouts=None, gt_labels=None):
    """every label assignment (estimates over `labels`, ground truths over `gt_labels` or `labels`) x layouts x ufs x target sets"""
    cases = []
    all_labels = list(labels) + [x for x in (gt_labels or []) if x not in labels]
    for ne in range(nmax + 1):
        for ng in range(nmax + 1):
            lays = _layouts(ne, ng, rng, n_random if ne + ng > 0 else 0)
            if n_layouts is not None:
                lays = lays[:n_layouts]
            for (ce, ue, cg, ug) in lays:
                for labs in itertools.product(*([labels] * ne + [gt_labels or labels] * ng)):
                    ests = [[labs[i], ce[i], ue[i]] for i in range(ne)]
                    gts = [[labs[ne + j], cg[j], ug[j]] for j in range(ng)]
                    for uf in ufs:
                        for k, tg in enumerate(target_sets or [all_labels]):
                            cases.append(_case(fam, uf, ests, gts, targets=tg, split=(ne + ng + k) % 3))
    if cap is not None and len(cases) > cap:
        # keep every size; thin out uniformly (thorough tier budget)
        step = len(cases) / cap
        cases = [cases[int(i * step)] for i in range(cap)]
    return cases


def _random_case(rng, nmax, malformed=False):
    fam = rng.choice(["tl", "tl", "aw"])
    fg = fam if rng.random() < 0.93 else ("aw" if fam == "tl" else "tl")
    pool_e = TL if fam == "tl" else AW
    pool_g = TL if fg == "tl" else AW
    k = rng.randint(2, 5)
    le = rng.sample(pool_e, min(k, len(pool_e)))
    lg = le if fg == fam else rng.sample(pool_g, min(k, len(pool_g)))
    if rng.random() < 0.7:  # FP labels are rare in classification data
        le = [x for x in le if x != "false_positive"] or ["unknown"]
        lg = [x for x in lg if x != "false_positive"] or ["unknown"]
    ne, ng = rng.randint(0, nmax), rng.randint(0, nmax)
    cams = rng.sample(CAMS, rng.choice([1, 2, 2, 2]))
    nu = max(ne, ng, 1) + rng.randint(0, 2)

    def side(n, labs):
        used = {}
        objs = []
        for _ in range(n):
            c = rng.choice(cams)
            pool = [u for u in UU[:nu] if u not in used.setdefault(c, set())]
            if not pool:
                continue
            u = rng.choice(pool)
            used[c].add(u)
            objs.append([rng.choice(labs), c, u])
        return objs

    ests, gts = side(ne, le), side(ng, lg)
    domain = True
    if malformed:
        domain = False
        kind = rng.choice(["null", "dup", "dup", "nullgt"])
        if kind == "null" and ests:
            rng.choice(ests)[2] = None
        elif kind == "nullgt" and gts:
            rng.choice(gts)[2] = None
        elif kind == "dup":
            sidel = rng.choice([ests, gts])
            if len(sidel) >= 2:
                a, b = rng.sample(range(len(sidel)), 2)
                sidel[b][1], sidel[b][2] = sidel[a][1], sidel[a][2]
            else:
                domain = True
        else:
            domain = True
    targets = None
    r = rng.random()
    allabs = sorted(set(pool_e[:4]))
    if r < 0.5:
        targets = sorted(set(le) | set(lg if fg == fam else []))
    elif r < 0.8:
        targets = rng.sample(allabs, rng.randint(1, len(allabs)))
    else:
        targets = list(pool_e)
    task = "classification2d" if rng.random() < 0.85 else "fp_validation2d"
    return _case(fam, rng.random() < 0.5, ests, gts, targets=targets, task=task, fg=fg, split=rng.randint(0, 3),
                 domain=domain)


def _subsets(labels, proper=False):
    out = [list(c) for k in range(1, len(labels) + 1) for c in itertools.combinations(labels, k)]
    return [t for t in out if len(t) < len(labels)] if proper else out


def _dcase(fam, rs, targets, split=0, xg=(), metrics=True):
    """kind 'divide': the result list is built directly, in this order. rs = [[est label, gt label | None], ...];
    xg = labels of additional ground truths that no estimate is paired with; metrics=False: only the buckets
    (divide_objects) are produced and checked, not the scores computed from them."""
    return {"kind": "divide", "fam": fam, "rs": [list(r) for r in rs], "targets": list(targets), "split": split,
            "xg": list(xg), "metrics": bool(metrics)}


def _divide_sweep(labels, fam, nmax, metrics_upto=None):
    """every ordered result list of 1..nmax results over `labels` x every non-empty target subset"""
    types = [[e, g] for e in labels for g in list(labels) + [None]]
    tsets = _subsets(labels)
    cases = []
    for n in range(1, nmax + 1):
        for rs in itertools.product(types, repeat=n):
            for k, tg in enumerate(tsets):
                cases.append(_dcase(fam, rs, tg, split=(n + k) % 3, metrics=metrics_upto is None or n <= metrics_upto))
    return cases


def _random_divide(rng, nmax):
    fam = rng.choice(["aw", "tl"])
    pool = AW if fam == "aw" else TL
    labs = rng.sample(pool[:4], rng.randint(2, 4))
    if rng.random() < 0.15:
        labs.append("false_positive")
    n = rng.randint(1, nmax)
    rs = [[rng.choice(labs), rng.choice(labs + [None])] for _ in range(n)]
    tg = rng.sample(pool[:4], rng.randint(1, 3)) if rng.random() < 0.85 else list(pool)
    xg = [rng.choice(labs) for _ in range(rng.choice([0, 0, 1, 2, 3]))]
    return _dcase(fam, rs, tg, split=rng.randint(0, 3), xg=xg)


# ----------------------------------------------------------------------------- manager level (kind 'manager')
# The classification path as a user drives it: PerceptionEvaluationManager(evaluation_task="classification2d") built without a
# dataset, add_frame_result per frame (filtering by target label, get_object_results, PerceptionFrameResult.evaluate_frame ->
# MetricsScore.evaluate_classification), then get_scene_result (the frames pooled).
# case = {"kind": "manager", "fam", "uf", "targets": [...], "cams": [...], "frames": [{"ests": [[label, cam, uuid]...], "gts": [...]}...]}

NON_TARGET = {"tl": ["green_left", "red_right", "red_left", "green_straight"], "aw": ["truck", "bicycle", "motorbike", "animal"]}


def _mcase(fam, uf, targets, cams, frames):
    return {"kind": "manager", "fam": fam, "uf": bool(uf), "targets": list(targets), "cams": list(cams),
            "frames": [{"ests": [list(o) for o in f["ests"]], "gts": [list(o) for o in f["gts"]]} for f in frames]}


def _kept(case, specs):
    """indices of the objects the manager evaluates: those whose label is a target label, and those with the FP label
    whatever the target list says (filter_objects keeps every FP-labelled object: it marks a place where nothing should be
    reported).  The cases do not use the 'unknown' label outside the target list, so this is the whole filtering rule."""
    T = set(case["targets"])
    return [i for i, o in enumerate(specs) if o[0] in T or o[0] == "false_positive"]


def _random_scene(rng, perfect=False):
    fam = rng.choice(["tl", "tl", "aw"])
    pool = (TL if fam == "tl" else AW)[:4]
    targets = rng.sample(pool, rng.randint(1, 4))
    labs = list(targets) + ([rng.choice(NON_TARGET[fam])] if rng.random() < 0.3 else [])
    cams = rng.sample(CAMS, rng.choice([1, 2, 2, 3]))
    nu = rng.randint(2, 6)
    # in every fifth scene or so some ground truths carry the FP label ("nothing should be reported here"); never in a perfect one
    p_fp = rng.choice([0.2, 0.4]) if (not perfect and rng.random() < 0.2) else 0.0
    frames = []
    for _ in range(rng.choice([1, 2, 2, 3, 4])):
        def side(n):
            used, objs = {}, []
            for _ in range(n):
                c = rng.choice(cams)
                pl = [u for u in UU[:nu] if u not in used.setdefault(c, set())]
                if pl:
                    u = rng.choice(pl)
                    used[c].add(u)
                    objs.append([rng.choice(labs), c, u])
            return objs
        r = rng.random()
        gts = side(0 if r < 0.08 else rng.randint(1, 5))
        if perfect:
            ests = [list(o) for o in gts if o[0] in targets]
            rng.shuffle(ests)
        elif r > 0.92:
            ests = []
        elif rng.random() < 0.5:  # mostly right: the ground truths with a few labels / uuids changed, some dropped, some added
            ests = [list(o) for o in gts if rng.random() < 0.85]
            for o in ests:
                if rng.random() < 0.3:
                    o[0] = rng.choice(labs)
            rng.shuffle(ests)
            keys = {(o[1], o[2]) for o in ests}
            for o in side(rng.randint(0, 2)):
                if (o[1], o[2]) not in keys:
                    keys.add((o[1], o[2]))
                    ests.append(o)
        else:
            ests = side(rng.randint(1, 5))
        if p_fp:  # after the estimates were derived: estimates never carry the FP label here
            for o in gts:
                if rng.random() < p_fp:
                    o[0] = "false_positive"
        frames.append({"ests": ests, "gts": gts})
    return _mcase(fam, rng.random() < 0.5, targets, cams, frames)


def _manager_cases(rng, tier):
    cases = []
    # every label assignment of the small pairing sweeps as a one-frame scene, and the same frame twice as a two-frame scene
    for fam, labs, ufs in (("tl", TL[:3], (False, True)), ("aw", AW[:3], (False,))):
        for c in _sweep(rng, 2, labs, fam, ufs, 1):
            fr = {"ests": c["ests"], "gts": c["gts"]}
            k = len(cases)
            cases.append(_mcase(fam, c["uf"], labs if k % 3 else labs[:2], CAMS[:2], [fr] if k % 2 else [fr, {"ests": c["gts"], "gts": c["gts"]}]))
    # ground truths with the FP label (kept by the manager whatever the target list says): every assignment of {green, red} to
    # <= 2 (thorough: 3) estimates and of {green, red, FP} to as many ground truths, one- and two-frame scenes, both settings
    for c in _sweep(rng, 2 if tier == "quick" else 3, TL[:2], "tl", (False, True), 1, gt_labels=TL[:2] + ["false_positive"]):
        if any(o[0] == "false_positive" for o in c["gts"]):
            fr = {"ests": c["ests"], "gts": c["gts"]}
            k = len(cases)
            cases.append(_mcase("tl", c["uf"], TL[:2] if k % 3 else TL[:3], CAMS[:2],
                                [fr] if k % 2 else [{"ests": [o for o in c["gts"] if o[0] != "false_positive"], "gts": c["gts"]}, fr]))
    n = 1500 if tier == "quick" else 20000
    for i in range(n):
        cases.append(_random_scene(rng, perfect=(i % 8 == 0)))
    return cases


_MG = {}


def _manager(case):
    """a newly constructed real manager without a dataset.  Only matplotlib's figure creation (the visualizer is never used
    here) is short-cut: all managers of this process share one figure."""
    import tempfile

    import matplotlib.pyplot as plt
    from perception_eval.config import PerceptionEvaluationConfig
    from perception_eval.manager import PerceptionEvaluationManager

    if "tmp" not in _MG:
        _MG["tmp"] = tempfile.mkdtemp(prefix="c11_")
    cfg = PerceptionEvaluationConfig(
        dataset_paths=[], frame_id=list(case["cams"]), result_root_directory=_MG["tmp"],
        evaluation_config_dict={"evaluation_task": "classification2d", "target_labels": list(case["targets"]),
                                "label_prefix": "traffic_light" if case["fam"] == "tl" else "autoware",
                                "merge_similar_labels": False, "allow_matching_unknown": True,
                                "uuid_matching_first": case["uf"]})
    orig = plt.subplots
    if "fig" not in _MG:
        _MG["fig"] = orig()
    plt.subplots = lambda *a, **k: _MG["fig"]
    try:
        return PerceptionEvaluationManager(cfg)
    finally:
        plt.subplots = orig


def _score_out(M, ms):
    """the classification part of a MetricsScore"""
    o = {"n_scores": len(ms.classification_scores)}
    if ms.classification_scores:
        sc = ms.classification_scores[-1]
        o["accs"] = [_acc(a) for a in sc.accuracies]
        o["labels"] = [[x.value for x in a.target_labels] for a in sc.accuracies]
        o["summary"] = [_fl(x) for x in sc._summarize()]
    return o


def _run_manager(case):
    M = _mods()
    from perception_eval.common.dataset import FrameGroundTruth
    from perception_eval.evaluation.result.perception_frame_config import CriticalObjectFilterConfig, PerceptionPassFailConfig

    mk, Label, tab = M["DynamicObject2D"], M["Label"], M["lab"][case["fam"]]
    try:
        m = _manager(case)
        cfg = m.evaluator_config
        crit = CriticalObjectFilterConfig(cfg, list(case["targets"]))
        pf = PerceptionPassFailConfig(cfg, list(case["targets"]))
        out = {"frames": [], "targets": [t.value for t in m.target_labels]}
        for k, fr in enumerate(case["frames"]):
            ests = [mk(100 + k, M["frame"][c], 1.0, Label(tab[l], l), None, u) for (l, c, u) in fr["ests"]]
            gts = [mk(100 + k, M["frame"][c], 1.0, Label(tab[l], l), None, u) for (l, c, u) in fr["gts"]]
            eid = {id(o): i for i, o in enumerate(ests)}
            gid = {id(o): i for i, o in enumerate(gts)}

            def rid(r):
                g = r.ground_truth_object
                return [eid.get(id(r.estimated_object), -1), None if g is None else gid.get(id(g), -1)]

            r = m.add_frame_result(100 + k, FrameGroundTruth(100 + k, str(k), list(gts)), list(ests), crit, pf)
            fo = {"pairs": [rid(x) for x in r.object_results], "correct": [bool(x.is_label_correct) for x in r.object_results],
                  "gts_kept": [gid.get(id(g), -1) for g in r.frame_ground_truth.objects]}
            fo.update(_score_out(M, r.metrics_score))
            # the per-label buckets as the manager forms them (evaluate_frame / get_scene_result): TRUSTED divide_objects(_to_num)
            d = M["divide_objects"](r.object_results, m.target_labels)
            n = M["divide_objects_to_num"](r.frame_ground_truth.objects, m.target_labels)
            fo["buckets"] = [[rid(x) for x in d[t]] for t in m.target_labels]
            fo["bucket_num_gt"] = [n[t] for t in m.target_labels]
            out["frames"].append(fo)
        out["n_frame_results"] = len(m.frame_results)
        out["scene"] = _score_out(M, m.get_scene_result())
        return out
    except Exception as e:
        return {"err": type(e).__name__}


def corpus():
    g, r, y = "green", "red", "yellow"
    f, b, t = CAMS[0], CAMS[1], CAMS[2]
    cs = []
    # stage 1 greedy by label steals the uuid partner; stage 2 pairs the rest by uuid
    cs.append(_case("tl", False, [[g, f, "a"], [r, f, "b"]], [[r, f, "a"], [g, f, "b"]], targets=[g, r]))
    cs.append(_case("tl", True, [[g, f, "a"], [r, f, "b"]], [[r, f, "a"], [g, f, "b"]], targets=[g, r]))
    # same uuid in two cameras: no cross-camera pairing in either stage
    cs.append(_case("tl", False, [[g, f, "a"], [g, b, "a"]], [[g, b, "a"], [r, f, "a"]], targets=[g, r]))
    cs.append(_case("aw", False, [["car", f, "a"], ["bus", b, "a"]], [["car", b, "a"], ["car", f, "b"]], targets=["car", "bus"]))
    # FP tail and its CAM_TRAFFIC_LIGHT exception (generic labels on the integrated TLR camera)
    cs.append(_case("aw", False, [["car", f, "a"], ["bus", f, "c"]], [["car", f, "a"]], targets=["car", "bus"]))
    cs.append(_case("aw", False, [["car", f, "a"], ["bus", t, "c"], ["bus", f, "d"]], [["car", f, "a"]], targets=["car", "bus"]))
    # empty sides, both tasks
    for task in ("classification2d", "fp_validation2d"):
        cs.append(_case("tl", False, [[g, f, "a"]], [], targets=[g], task=task))
        cs.append(_case("aw", False, [["car", f, "a"]], [], targets=["car"], task=task))
        cs.append(_case("tl", False, [], [[g, f, "a"]], targets=[g], task=task))
    cs.append(_case("tl", False, [], [], targets=[g]))
    # null uuid -> RuntimeError ; with an empty other side no loop body runs
    cs.append(_case("tl", False, [[g, f, None]], [[g, f, "a"]], targets=[g], domain=False))
    cs.append(_case("aw", False, [["car", f, "a"]], [["car", f, None]], targets=["car"], domain=False))
    cs.append(_case("aw", False, [["car", f, None]], [], targets=["car"], domain=False))
    # duplicate uuid in one camera: generic -> ValueError from list.remove, TLR guarded by `in`
    cs.append(_case("aw", False, [["car", f, "a"]], [["car", f, "a"], ["bus", f, "a"]], targets=["car"], domain=False))
    cs.append(_case("aw", False, [["car", f, "a"], ["bus", f, "a"]], [["car", f, "a"]], targets=["car"], domain=False))
    cs.append(_case("tl", True, [[g, f, "a"]], [[r, f, "a"], [g, f, "a"]], targets=[g, r], domain=False))
    # FP-labelled ground truth: label-correct whatever the estimate says (paired in stage 2 by uuid)
    cs.append(_case("tl", False, [[g, f, "a"], [g, f, "b"]], [["false_positive", f, "b"], [g, f, "a"]], targets=[g, r]))
    # everything right: all four scores 1
    cs.append(_case("tl", False, [[g, f, "a"], [r, b, "a"], [y, f, "c"]], [[r, b, "a"], [y, f, "c"], [g, f, "a"]], targets=[g, r, y]))
    # mixed families: dispatch on the first estimate; labels of different enums never agree
    cs.append(_case("tl", False, [["unknown", f, "a"]], [["unknown", f, "a"]], targets=["unknown"], fg="aw"))
    cs.append(_case("aw", False, [["unknown", f, "a"]], [["unknown", f, "a"]], targets=["unknown"], fg="tl"))
    # per-label buckets with labels outside the target list: an estimate whose own label is no target is scored under
    # its ground truth's label -- also when an EARLIER result (bus, bus) was filed under a non-target key
    cs.append(_case("aw", False, [["bus", f, "a"], ["bus", f, "b"], ["car", f, "c"]],
                    [["bus", f, "a"], ["car", f, "b"], ["car", f, "c"]], targets=["car"]))
    cs.append(_case("tl", True, [[r, f, "a"], [r, f, "b"], [g, f, "c"]],
                    [[r, f, "a"], [g, f, "b"], [g, f, "c"]], targets=[g]))
    cs.append(_dcase("aw", [["bus", "bus"], ["bus", "car"], ["car", "car"]], ["car"]))
    cs.append(_dcase("aw", [["bus", "pedestrian"], ["pedestrian", "car"], ["car", "car"]], ["car"], split=2))
    cs.append(_dcase("tl", [[r, y], [y, g], [r, None], [g, r], [y, y]], [g], xg=[g, r]))
    cs.append(_dcase("aw", [["bus", None], ["car", None]], ["car"]))
    cs.append(_dcase("aw", [["car", "car"]], ["bus", "car", "pedestrian"], xg=["bus"]))
    # manager level: a perfect two-frame scene (label stage steals the uuid partners), a scene with wrong labels, unpaired objects,
    # an empty frame and a label outside the target list, a generic scene with an FP tail
    cs.append(_mcase("tl", False, [g, r, y], [f, b], [
        {"ests": [[g, f, "a"], [r, f, "b"], [y, b, "c"]], "gts": [[r, f, "a"], [g, f, "b"], [y, b, "c"]]},
        {"ests": [[g, f, "a"]], "gts": [[g, f, "a"]]}]))
    cs.append(_mcase("tl", True, [g, r], [f, b], [
        {"ests": [[g, f, "a"], [r, f, "b"], [y, b, "c"]], "gts": [[r, f, "a"], [g, f, "b"], [y, b, "c"]]},
        {"ests": [], "gts": [[g, f, "a"]]}, {"ests": [[r, b, "d"]], "gts": []},
        {"ests": [[g, f, "a"], [g, b, "a"]], "gts": [[g, b, "a"], [r, f, "a"], ["green_left", f, "e"]]}]))
    cs.append(_mcase("aw", False, ["car", "bus"], [f, t], [
        {"ests": [["car", f, "a"], ["bus", f, "c"], ["truck", f, "d"]], "gts": [["car", f, "a"], ["bus", f, "b"]]},
        {"ests": [["car", f, "a"], ["bus", t, "c"]], "gts": [["bus", f, "a"]]}]))
    # stored replays (harness/corpus/c11/*.json): finding C11-N1 and its companions; {"case": ...} or {"cases": [...]}
    import json

    seen = {json.dumps(c, sort_keys=True) for c in cs}
    for p in sorted((core.VERIF / "harness" / "corpus" / "c11").glob("*.json")):
        d = json.loads(p.read_text())
        for c in ([d["case"]] if "case" in d else []) + list(d.get("cases", [])):
            k = json.dumps(c, sort_keys=True)
            if k not in seen:
                seen.add(k)
                cs.append(c)
    return cs


def _realise(eq, n, m, pool, fixed=None):
    """values for est 0..n-1 and gt 0..m-1 from `pool` with est_i == gt_j <=> eq[(i, j)] for the atoms given; `fixed[i]` =
    True / False: est i must / must not take pool[-1]"""
    import itertools

    for vals in itertools.product(pool, repeat=n + m):
        E, G = vals[:n], vals[n:]
        if all((E[i] == G[j]) == b for (i, j), b in eq.items() if i < n and j < m) and \
                all((E[i] == pool[-1]) == b for i, b in (fixed or {}).items() if i < n):
            return list(E), list(G)
    return None


def table_witness_cases():
    """concrete pairing cases realising the valuations on which the code's decision table (harness/dt_c11.py) and the
    model's skeleton differ; empty on an unchanged source. Never raises."""
    try:
        import re

        from .. import dt_c11

        shape_of = {nm: (f, n, m) for nm, f, n, m in dt_c11.SHAPES}
        cs = []
        for name, asg, rc, rm in dt_c11.table_disagreements(limit=60):
            f, n, m = shape_of[name]
            eq = {"uuid": {}, "frame": {}, "lab": {}}
            tl = {}
            for a, o in asg.items():
                mm = re.fullmatch(r"(uuid|frame|lab)\((\d),(\d)\)", a)
                if mm:
                    eq[mm.group(1)][(int(mm.group(2)), int(mm.group(3)))] = bool(o)
                mm = re.fullmatch(r"tl\((\d)\)", a)
                if mm:
                    tl[int(mm.group(1))] = bool(o)
            # atoms the path did not read: same camera, different uuids / labels unless stated
            for i in range(n):
                for j in range(m):
                    eq["frame"].setdefault((i, j), True)
            fam = "aw" if f == "G" else "tl"
            labs = (AW if fam == "aw" else TL)[:3]
            U = _realise(eq["uuid"], n, m, ["a", "b", "c", "d"])
            F = _realise(eq["frame"], n, m, [CAMS[0], CAMS[1], CAMS[2]], fixed=tl)
            Lb = _realise(eq["lab"], n, m, labs)
            if U is None or F is None or Lb is None:
                continue  # jointly unrealisable (the table treats the equality atoms as independent)
            ests = [[Lb[0][i], F[0][i], U[0][i]] for i in range(n)]
            gts = [[Lb[1][j], F[1][j], U[1][j]] for j in range(m)]

            def uniq(side):
                keys = [(o[1], o[2]) for o in side]
                return len(set(keys)) == len(keys)

            c = _case(fam, f == "T1", ests, gts, targets=labs, domain=uniq(ests) and uniq(gts))
            c["table_witness"] = {"shape": name, "valuation": {a: bool(o) for a, o in asg.items()}, "code_table": rc, "model": rm}
            cs.append(c)
        cs.sort(key=lambda c: not c["domain"])
        return cs
    except Exception:  # noqa: BLE001 - the witness step must never break the check
        return []


def extra_evidence():
    from .. import dt_c11

    return {"tables": dt_c11.evidence()}


_TB = {}


def _table_branches():
    if _TB.get("done"):
        return []
    _TB["done"] = True
    try:
        from .. import dt_c11

        ev = dt_c11.evidence()
        b = [f"table:untranslatable:{k}" for k in ev["decision_tables_untranslatable"]]
        if b:
            b.append("table:untranslatable")
        return b + [f"table:{k}:paths={v['paths']}" for k, v in ev["decision_tables"].items()]
    except Exception:  # noqa: BLE001
        return ["table:untranslatable"]


def generate(rng, tier):
    cases = table_witness_cases()
    if tier == "quick":
        cases += _sweep(rng, 3, TL[:3], "tl", (False, True), 2)
        cases += _sweep(rng, 3, AW[:3], "aw", (False,), 1)
        cases += _sweep(rng, 2, ["green", "red", "false_positive"], "tl", (False, True), 1)
        cases += _sweep(rng, 2, ["car", "bus", "false_positive"], "aw", (True,), 0)
        # FP label on the ground-truth side only, outside the target list (as in recorded data): finding C11-N1 lives here
        cases += _sweep(rng, 3, TL[:2], "tl", (False, True), 1, gt_labels=TL[:2] + ["false_positive"], target_sets=[TL[:2]])
        cases += _sweep(rng, 3, AW[:3], "aw", (False,), 0, n_layouts=1,
                        target_sets=[["car"], ["bus", "pedestrian"], ["pedestrian", "car"]])
        cases += _sweep(rng, 2, AW[:3], "aw", (False,), 0, n_layouts=1, target_sets=[["bus"], ["pedestrian"], ["car", "bus"]])
        cases += _sweep(rng, 2, TL[:3], "tl", (False, True), 0, target_sets=_subsets(TL[:3], True), n_layouts=1)
        cases += _divide_sweep(AW[:3], "aw", 4, metrics_upto=3)  # size 4: buckets only (scores sampled below)
        cases += _divide_sweep(TL[:3], "tl", 2)
        types = [[e, g] for e in AW[:3] for g in AW[:3] + [None]]
        for _ in range(6000):
            cases.append(_dcase("aw", [rng.choice(types) for _ in range(4)], rng.choice(_subsets(AW[:3])),
                                split=rng.randint(0, 3)))
        n_rand, n_mal, nmax, n_div = 4000, 800, 9, 3000
    else:
        cases += _sweep(rng, 3, TL[:3], "tl", (False, True), 4)
        cases += _sweep(rng, 4, TL[:3], "tl", (False, True), 2, cap=170000)
        cases += _sweep(rng, 4, AW[:3], "aw", (False,), 1, cap=60000)
        cases += _sweep(rng, 3, ["green", "red", "false_positive"], "tl", (False, True), 2)
        cases += _sweep(rng, 3, ["car", "bus", "false_positive"], "aw", (True,), 1)
        cases += _sweep(rng, 4, TL[:2], "tl", (False, True), 2, gt_labels=TL[:2] + ["false_positive"], target_sets=[TL[:2]], cap=60000)
        cases += _sweep(rng, 3, AW[:3], "aw", (False,), 1, target_sets=_subsets(AW[:3], True), n_layouts=2)
        cases += _sweep(rng, 3, TL[:3], "tl", (False, True), 0, target_sets=_subsets(TL[:3], True), n_layouts=1)
        cases += _divide_sweep(AW[:3], "aw", 4)
        cases += _divide_sweep(TL[:3], "tl", 4)
        cases += _divide_sweep(["car", "bus", "false_positive"], "aw", 3)
        n_rand, n_mal, nmax, n_div = 30000, 5000, 9, 30000
    for _ in range(n_div):
        cases.append(_random_divide(rng, 8))
    for _ in range(n_rand):
        cases.append(_random_case(rng, nmax))
    for _ in range(n_mal):
        cases.append(_random_case(rng, 5, malformed=True))
    cases += _manager_cases(rng, tier)
    return cases


# ----------------------------------------------------------------------------- implementation

_INF = float("inf")


def _fl(x):
    if x == _INF:
        return "inf"
    if x != x:
        return "nan"
    return float(x)


def _acc(a):
    return {"num_gt": a.num_ground_truth, "num": a.objects_results_num, "tp": a.num_tp, "fp": a.num_fp,
            "accuracy": _fl(a.accuracy), "precision": _fl(a.precision), "recall": _fl(a.recall), "f1": _fl(a.f1score),
            "results": {k: _fl(v) for k, v in a.results.items()}}


def _build(case):
    M = _mods()
    mk = M["DynamicObject2D"]
    Label = M["Label"]

    def objs(specs, fam):
        tab = M["lab"][fam]
        return [mk(100, M["frame"][fr], 1.0, Label(tab[lab], lab), None, uu) for (lab, fr, uu) in specs]

    return objs(case["ests"], case["fe"]), objs(case["gts"], case["fg"])


def _split(lst, k):
    """nested per-frame form handed to the metrics (list of lists)"""
    if k == 0:
        return [lst]
    cut = (len(lst) * k) // 4
    return [lst[:cut], lst[cut:]]


def _lkey(label):
    """enum member -> [family, value]"""
    return ["tl" if type(label).__name__ == "TrafficLightLabel" else "aw", label.value]


def _per_label(M, res, gts, targets, split, rid, out, separate=True, metrics=True):
    """what PerceptionFrameResult.evaluate_frame does for classification: divide_objects, divide_objects_to_num,
    ClassificationMetricsScore; records the complete dict returned by divide_objects and whether the call left its
    inputs alone and answers the same when repeated"""
    res_before, tg_before = list(res), list(targets)
    d = M["divide_objects"](res, targets)
    out["divide"] = [[_lkey(k), [rid(r) for r in v]] for k, v in d.items()]
    out["inputs_unchanged"] = (len(res) == len(res_before) and all(a is b for a, b in zip(res, res_before))
                               and len(targets) == len(tg_before) and all(a is b for a, b in zip(targets, tg_before)))
    d2 = M["divide_objects"](res, targets)
    out["repeat_same"] = (list(d2.keys()) == list(d.keys())
                          and all(len(d2[k]) == len(d[k]) and all(a is b for a, b in zip(d2[k], d[k])) for k in d))
    if not metrics:
        return
    n = M["divide_objects_to_num"](gts, targets)
    out["buckets"] = []
    od = {}
    for t in targets:
        frames = _split(d[t], split)
        od[t] = frames
        b = {"label": t.value, "frames": [[rid(r) for r in f] for f in frames], "num_gt": n[t]}
        if separate:  # a ClassificationAccuracy of its own, next to the one ClassificationMetricsScore builds
            b["acc"] = _acc(M["ClassificationAccuracy"](frames, n[t], [t]))
        out["buckets"].append(b)
    sc = M["ClassificationMetricsScore"](od, n, targets)
    out["score_accs"] = [_acc(a) for a in sc.accuracies]
    if not separate:
        for b, a in zip(out["buckets"], out["score_accs"]):
            b["acc"] = a
    out["score_labels"] = [[x.value for x in a.target_labels] for a in sc.accuracies]
    out["summary"] = [_fl(x) for x in sc._summarize()]


def _div_specs(case):
    """kind 'divide' -> (E, G, link): specs in the shape of the 'pair' kind; link[i] = index in G of est i's partner"""
    cam = CAMS[0]
    E, G, link = [], [], []
    for i, (e, g) in enumerate(case["rs"]):
        E.append([e, cam, "u%d" % i])
        if g is None:
            link.append(None)
        else:
            link.append(len(G))
            G.append([g, cam, "u%d" % i])
    for k, g in enumerate(case.get("xg", [])):
        G.append([g, cam, "x%d" % k])
    return E, G, link


def _run_divide(case):
    M = _mods()
    fam = case["fam"]
    tab, mk, Label, Res = M["lab"][fam], M["DynamicObject2D"], M["Label"], M["DynamicObjectWithPerceptionResult"]
    cam = M["frame"][CAMS[0]]
    try:
        # fresh objects per result, in the layout of _div_specs: est i <-> gt "u<i>", then the unpaired gts
        eid, gid, gts, res = {}, {}, [], []
        for i, (e, g) in enumerate(case["rs"]):
            est = mk(100, cam, 1.0, Label(tab[e], e), None, "u%d" % i)
            eid[id(est)] = i
            gt = None
            if g is not None:
                gt = mk(100, cam, 1.0, Label(tab[g], g), None, "u%d" % i)
                gid[id(gt)] = len(gts)
                gts.append(gt)
            res.append(Res(est, gt))
        for k, g in enumerate(case.get("xg", [])):
            gt = mk(100, cam, 1.0, Label(tab[g], g), None, "x%d" % k)
            gid[id(gt)] = len(gts)
            gts.append(gt)
        targets = [tab[t] for t in case["targets"]]

        def rid(r):
            g = r.ground_truth_object
            return [eid[id(r.estimated_object)], None if g is None else gid[id(g)]]

        metrics = case.get("metrics", True)
        out = {"pairs": [rid(r) for r in res]}
        if metrics:
            out["correct"] = [bool(r.is_label_correct) for r in res]
        _per_label(M, res, gts, targets, case["split"], rid, out, separate=False, metrics=metrics)
        return out
    except Exception as e:
        return {"err": type(e).__name__}


def run_impl(case):
    if case.get("kind") == "divide":
        return _run_divide(case)
    if case.get("kind") == "manager":
        return _run_manager(case)
    M = _mods()
    ests, gts = _build(case)
    eid = {id(o): i for i, o in enumerate(ests)}
    gid = {id(o): i for i, o in enumerate(gts)}
    try:
        targets = None
        if case["targets"] is not None:
            targets = [M["lab"][case["fe"]][t] for t in case["targets"]]
        n_e, n_g = len(ests), len(gts)
        res = M["get_object_results"](M["task"][case["task"]], ests, gts, target_labels=targets,
                                      uuid_matching_first=case["uf"])
        if len(ests) != n_e or len(gts) != n_g:
            return {"err": "InputMutated"}

        def rid(r):
            g = r.ground_truth_object
            return [eid[id(r.estimated_object)], None if g is None else gid[id(g)]]

        out = {"pairs": [rid(r) for r in res], "correct": [bool(r.is_label_correct) for r in res]}
        whole = M["ClassificationAccuracy"](res, len(gts), targets or [])
        out["whole"] = _acc(whole)
        nested = M["ClassificationAccuracy"](_split(res, max(case["split"], 1)), len(gts), targets or [])
        out["whole_nested"] = _acc(nested)
        if targets is not None:
            _per_label(M, res, gts, targets, case["split"], rid, out)
        return out
    except Exception as e:
        return {"err": type(e).__name__}


# ----------------------------------------------------------------------------- model

def _jobj(i, spec, fam):
    return {"id": i, "uuid": spec[2], "tl": fam == "tl", "label": spec[0], "frame": spec[1]}


def _manager_requests(case, out):
    """one pairing + scoring request per frame (the objects the manager evaluates, the frame's real buckets), then one scoring
    request for the scene: the frames' buckets pooled the way get_scene_result does ([[]] first), objects under scene-wide ids"""
    fam = case["fam"]
    reqs, all_e, all_g = [], [], []
    nt = len(case["targets"])
    pooled = [[[]] for _ in range(nt)]
    pooled_n = [0] * nt
    ok = "frames" in out and len(out["frames"]) == len(case["frames"])
    for k, fr in enumerate(case["frames"]):
        ke, kg = _kept(case, fr["ests"]), _kept(case, fr["gts"])
        fo = out["frames"][k] if ok else {}
        buckets = [{"frames": [b], "num_gt": n} for b, n in zip(fo.get("buckets", []), fo.get("bucket_num_gt", []))]
        reqs.append({"op": "case", "fpv": False, "uf": case["uf"], "ests": [_jobj(i, fr["ests"][i], fam) for i in ke],
                     "gts": [_jobj(j, fr["gts"][j], fam) for j in kg], "buckets": buckets})
        all_e += [_jobj(100 * k + i, fr["ests"][i], fam) for i in ke]
        all_g += [_jobj(100 * k + j, fr["gts"][j], fam) for j in kg]
        for t in range(min(nt, len(buckets))):
            pooled[t].append([[100 * k + i, None if j is None else 100 * k + j] for i, j in fo["buckets"][t]])
            pooled_n[t] += fo["bucket_num_gt"][t]
    if ok:
        reqs.append({"op": "buckets", "ests": all_e, "gts": all_g,
                     "buckets": [{"frames": pooled[t], "num_gt": pooled_n[t]} for t in range(nt)]})
    return reqs


def _compare_manager(case, out, resps):
    if "err" in out:
        errs = [r["err"] for r in resps if "err" in r]
        return None if errs and errs[0] == out["err"] else f"impl raised {out['err']}, model {errs[:1] or 'ok'}"
    nf = len(case["frames"])
    for k in range(nf):
        r, fo = resps[k], out["frames"][k]
        if "err" in r:
            return f"frame {k}: impl ok, model {r['err']}"
        if fo["pairs"] != r["pairs"]:
            return f"frame {k}: pairs: impl {fo['pairs']} != model {r['pairs']}"
        d = _compare_scores(f"frame {k}", fo, r)
        if d:
            return d
    return _compare_scores("scene", out["scene"], resps[nf])


def _compare_scores(name, so, r):
    if so.get("n_scores") != 1:
        return f"{name}: {so.get('n_scores')} classification scores instead of one"
    if len(so["accs"]) != len(r["buckets"]):
        return f"{name}: {len(so['accs'])} per-label accuracies, model {len(r['buckets'])}"
    for lab, a, m in zip(so["labels"], so["accs"], r["buckets"]):
        d = _acc_diff(f"{name}.accuracies{lab}", a, m)
        if d:
            return d
    for k, a, m in zip(("accuracy", "precision", "recall", "f1"), so["summary"], r["summary"]):
        if not _score_eq(a, m):
            return f"{name}.summary.{k}: impl {a} != model {m}"
    return None


def model_requests(case, out):
    if case.get("kind") == "divide":
        return []  # the oracle is the reference for this kind (the Lean model takes the buckets as given)
    if case.get("kind") == "manager":
        return _manager_requests(case, out)
    req = {"op": "case", "fpv": case["task"].startswith("fp_validation"), "uf": case["uf"],
           "ests": [_jobj(i, s, case["fe"]) for i, s in enumerate(case["ests"])],
           "gts": [_jobj(i, s, case["fg"]) for i, s in enumerate(case["gts"])],
           "buckets": [{"frames": b["frames"], "num_gt": b["num_gt"]} for b in out.get("buckets", [])]}
    return [req]


def _score_eq(impl, model):
    if isinstance(impl, str) or model in ("inf", "nan"):
        return impl == model
    return core.close(impl, core.unq(model))


def _acc_diff(name, a, m):
    for k in ("num_gt", "num", "tp", "fp"):
        if a[k] != m[k]:
            return f"{name}.{k}: impl {a[k]} != model {m[k]}"
    for k in ("accuracy", "precision", "recall", "f1"):
        if not _score_eq(a[k], m[k]):
            return f"{name}.{k}: impl {a[k]} != model {m[k]}"
    return None


def compare(case, out, resps):
    if case.get("kind") == "manager":
        return _compare_manager(case, out, resps)
    r = resps[0]
    if "err" in out or "err" in r:
        return None if out.get("err") == r.get("err") else f"impl {out.get('err', 'ok')} != model {r.get('err', 'ok')}"
    if out["pairs"] != r["pairs"]:
        return f"pairs: impl {out['pairs']} != model {r['pairs']}"
    d = _acc_diff("whole", out["whole"], r["whole"]) or _acc_diff("whole_nested", out["whole_nested"], r["whole"])
    if d:
        return d
    if "buckets" in out:
        if len(out["buckets"]) != len(r["buckets"]):
            return "bucket count differs"
        for b, m, sa in zip(out["buckets"], r["buckets"], out["score_accs"]):
            d = _acc_diff("bucket[" + b["label"] + "]", b["acc"], m) or _acc_diff("score.accuracies[" + b["label"] + "]", sa, m)
            if d:
                return d
        for k, a, m in zip(("accuracy", "precision", "recall", "f1"), out["summary"], r["summary"]):
            if not _score_eq(a, m):
                return f"summary.{k}: impl {a} != model {m}"
    return None


# ----------------------------------------------------------------------------- oracle (independent of the model)

def _lab(case, side, spec):
    return (case["fe"] if side == "e" else case["fg"], spec[0])


def _max_equal_pairs(E, G):
    """maximum number of equally-labelled pairs over ALL one-to-one same-camera pairings (brute force).
    E, G: lists of (label, camera). Pairs with different labels add nothing, so only the others are searched."""
    n = len(E)
    best = 0

    def rec(i, used, cnt):
        nonlocal best
        if cnt + (n - i) <= best:
            return
        if i == n:
            best = max(best, cnt)
            return
        for j, g in enumerate(G):
            if j not in used and g == E[i]:
                rec(i + 1, used | {j}, cnt + 1)
        rec(i + 1, used, cnt)

    rec(0, frozenset(), 0)
    return best


def _class_sum(E, G):
    tot = 0
    for k in set(E):
        tot += min(E.count(k), G.count(k))
    return tot


FP_NAME = "false_positive"
MAX_TAG = "label-correct pairs not the largest possible under the pairing rule: "
N1 = "C11-N1"


def _rule_admits(uf, le_i, lg_j, e, g):
    """can the property's pairing rule for traffic lights form the pair (e, g)?  e, g = [label, camera, uuid].
    label-first: the label stage pairs EQUAL labels, the uuid stage EQUAL uuids (Lean: PEval.C11.RuleAdmissible);
    uuid-first: the first stage asks for equal label AND equal uuid, the second for equal uuid, so every pair shares
    the uuid.  Always within one camera."""
    if e[1] != g[1]:
        return False
    return e[2] == g[2] if uf else (le_i == lg_j or e[2] == g[2])


def _label_correct(le_i, lg_j):
    """is_label_correct of a pair: equal labels, or the ground truth carries the FP label (whatever the estimate says)"""
    return lg_j[1] == FP_NAME or le_i == lg_j


def _max_matching(n, adj):
    """size and one witness of a maximum matching of the bipartite graph adj[i] = [j...] (augmenting paths)"""
    owner = {}

    def aug(i, seen):
        for j in adj[i]:
            if j in seen:
                continue
            seen.add(j)
            if j not in owner or aug(owner[j], seen):
                owner[j] = i
                return True
        return False

    size = sum(1 for i in range(n) if aug(i, set()))
    return size, sorted((i, j) for j, i in owner.items())


def _max_brute(n, adj):
    """the same by definition: every one-to-one choice of edges is tried (small sets)"""
    best = [0, []]

    def rec(i, used, cur):
        if len(cur) + (n - i) <= best[0]:
            return
        if i == n:
            best[0], best[1] = len(cur), list(cur)
            return
        for j in adj[i]:
            if j not in used:
                cur.append((i, j))
                rec(i + 1, used | {j}, cur)
                cur.pop()
        rec(i + 1, used, cur)

    rec(0, frozenset(), [])
    return best[0], best[1]


def _max_label_correct(uf, E, G, le, lg, ie, ig):
    """THE maximum of the property: the largest number of label-correct pairs of any one-to-one pairing of the estimates
    `ie` with the ground truths `ig` (indices into E / G) every pair of which the rule admits.  A pair that is not
    label-correct adds nothing and only uses objects up, so the maximum is a maximum matching of the graph of pairs that
    are rule-admissible AND label-correct; small sets are searched exhaustively, larger ones by augmenting paths."""
    adj = [[b for b, j in enumerate(ig) if _rule_admits(uf, le[i], lg[j], E[i], G[j]) and _label_correct(le[i], lg[j])]
           for i in ie]
    size, wit = (_max_brute if len(ie) <= 4 and len(ig) <= 4 else _max_matching)(len(ie), adj)
    return size, [(ie[a], ig[b]) for a, b in wit]


def _two_stage(uf, E, G, le, lg):
    """the listed deviation of finding C11-N1 is 'the greedy two-stage pairing in list order and nothing else': stage 1
    walks the estimates and, for each, the ground truths in list order and pairs equal labels (uuid-first: and equal
    uuids) within a camera when both are still free; stage 2 does the same with equal uuids on what is left.  Used ONLY by
    the signature of the known finding (never by the oracle)."""
    fe, fg = set(range(len(E))), set(range(len(G)))
    res = []
    for stage in (1, 2):
        for i in sorted(fe):
            for j in sorted(fg):
                if i in fe and j in fg and E[i][1] == G[j][1] and \
                        ((le[i] == lg[j] and (not uf or E[i][2] == G[j][2])) if stage == 1 else E[i][2] == G[j][2]):
                    res.append([i, j])
                    fe.discard(i)
                    fg.discard(j)
    return res


def _frac_ratio(a, b):
    return None if b == 0 else Fraction(a, b)


def _chk_score(name, got, want, unit):
    """got: impl float or 'inf'/'nan'; want: Fraction or None (undefined)"""
    if want is None:
        return None if got in ("inf", "nan") else f"{name}: expected undefined, got {got}"
    if isinstance(got, str):
        return f"{name}: expected {want}, got {got}"
    if not core.close(got, want):
        return f"{name}: expected {want}, got {got}"
    if unit and not (-1e-12 <= got <= 1 + 1e-12):
        return f"{name}: {got} outside [0,1]"
    return None


def _chk_acc(name, a, tp, n, ngt, unit):
    if a["tp"] != tp or a["fp"] != n - tp or a["num"] != n:
        return f"{name}: counts (tp,fp,n)=({a['tp']},{a['fp']},{a['num']}) expected ({tp},{n - tp},{n})"
    p, r = _frac_ratio(tp, n), _frac_ratio(tp, ngt)
    f1 = None if (p is None or r is None or p + r == 0) else 2 * p * r / (p + r)
    for k, want in (("accuracy", _frac_ratio(tp, n + ngt - tp)), ("precision", p), ("recall", r), ("f1", f1)):
        d = _chk_score(f"{name}.{k}", a[k], want, unit)
        if d:
            return d
        if a["results"][{"accuracy": "Accuracy", "precision": "Precision", "recall": "Recall", "f1": "F1score"}[k]] != a[k]:
            return f"{name}.results[{k}] differs from the attribute"
    if a["results"]["predict_num"] != n:
        return f"{name}.results[predict_num] != {n}"
    return None


def _expected_buckets(case, E, G, pairs):
    """THE per-label bucketing, from the property's reading of the result list R = pairs (in order) and targets T:
    bucket(L) = [r in R, in order, with est label == L, or est label no target and r has a ground truth labelled L].
    Labels are (family, value): members of different label enums are never equal."""
    T = [(case["fe"], t) for t in case["targets"]]
    Tset = set(T)
    exp = {t: [] for t in T}
    for i, j in pairs:
        le = _lab(case, "e", E[i])
        if le in Tset:
            exp[le].append([i, j])
        elif j is not None and _lab(case, "g", G[j]) in Tset:
            exp[_lab(case, "g", G[j])].append([i, j])
    return T, exp


def _chk_buckets(case, E, G, out):
    """buckets handed to the metrics == independent bucketing; non-target keys hold no result of a target bucket;
    inputs untouched; same answer when asked again"""
    if not out.get("inputs_unchanged", True):
        return "divide_objects changed its input list / target list"
    if not out.get("repeat_same", True):
        return "divide_objects gave a different answer for the same arguments the second time"
    T, exp = _expected_buckets(case, E, G, out["pairs"])
    got = {tuple(k): v for k, v in out["divide"]}
    if len(got) != len(out["divide"]):
        return "divide_objects returned equal keys twice"
    in_target = set()
    for t in T:
        if t not in got:
            return f"no bucket for target label {t[1]}"
        if got[t] != exp[t]:
            return (f"bucket[{t[1]}] = {got[t]} but the results with estimate label {t[1]} (or a non-target estimate "
                    f"label and ground truth {t[1]}) are {exp[t]}; targets {case['targets']}")
        in_target.update(tuple(r) for r in exp[t])
    for k, v in got.items():
        if k in exp:
            continue
        for r in v:
            if tuple(r) in in_target:
                return f"result {r} belongs to a target bucket but is filed under the non-target key {k[1]}"
    # what the metrics receive (frames) is the bucket, cut into frames
    for t, b in zip(T, out.get("buckets", [])):
        flat = [x for f in b["frames"] for x in f]
        if b["label"] != t[1] or flat != exp[t]:
            return f"metrics input for {t[1]} is {flat}, expected {exp[t]}"
        ngt = sum(1 for s in G if _lab(case, "g", s) == t)
        if b["num_gt"] != ngt:
            return f"num_ground_truth[{t[1]}] = {b['num_gt']} but {ngt} ground truths carry that label"
    if out.get("score_labels") is not None and out["score_labels"] != [[t[1]] for t in T]:
        return f"ClassificationMetricsScore.accuracies are for {out['score_labels']}, targets {case['targets']}"
    return None


def _oracle_manager(case, out, short=None):
    """the property evaluated on what the manager holds: frame_result.object_results of every frame (pairing statement on the
    objects the manager evaluates: those with a target label and those with the FP label), the classification scores of every
    frame and of the scene (counting definitions over the pairs, per label and summarised; in [0,1] when defined and no ground
    truth carries the FP label; all 1 for a perfect frame / scene)"""
    if "err" in out:
        return f"the manager raised {out['err']} on unique non-null uuids"
    fam = case["fam"]
    c2 = {"fe": fam, "fg": fam, "uf": case["uf"], "targets": case["targets"]}
    T = list(case["targets"])
    if out.get("targets") != T:
        return f"harness: manager target labels {out.get('targets')} != {T}"
    if out.get("n_frame_results") != len(case["frames"]):
        return f"{out.get('n_frame_results')} frame results for {len(case['frames'])} frames"
    pooled = {t: [0, 0, 0] for t in T}  # results, ground truths, label-correct results
    all_perfect = True
    scene_fp_gt = False
    for k, (fr, fo) in enumerate(zip(case["frames"], out["frames"])):
        ke, kg = _kept(case, fr["ests"]), _kept(case, fr["gts"])
        E, G = [fr["ests"][i] for i in ke], [fr["gts"][j] for j in kg]
        pe, pg = {i: a for a, i in enumerate(ke)}, {j: a for a, j in enumerate(kg)}
        for i, j in fo["pairs"]:
            if i not in pe or (j is not None and j not in pg):
                return f"frame {k}: result ({i},{j}) uses an object that is not among the frame's objects with a target label"
        pairs = [[pe[i], None if j is None else pg[j]] for i, j in fo["pairs"]]
        d = _oracle_pairing(c2, E, G, pairs, short, where=f"frame {k}, ")
        if d:
            return f"frame {k}: {d}"
        if sorted(fo["gts_kept"]) != kg:
            return f"frame {k}: ground truths evaluated {sorted(fo['gts_kept'])}, those with a target label are {kg}"
        le, lg = [s[0] for s in E], [s[0] for s in G]
        fp_gt = FP_NAME in lg
        scene_fp_gt = scene_fp_gt or fp_gt
        flags = [j is not None and (lg[j] == FP_NAME or le[i] == lg[j]) for i, j in pairs]
        if flags != fo["correct"]:
            return f"frame {k}: is_label_correct {fo['correct']} expected {flags}"
        per = {t: [0, 0, 0] for t in T}
        for (i, j), ok in zip(pairs, flags):
            # a result is scored under its estimate's label, else (estimate label no target) under its ground truth's
            b = le[i] if le[i] in per else lg[j] if j is not None and lg[j] in per else None
            if b is not None:
                per[b][0] += 1
                per[b][2] += int(ok)
        for x in lg:
            if x in per:  # an FP-labelled ground truth outside the target list is evaluated but counted under no label
                per[x][1] += 1
        d = _chk_scores(f"frame {k}", fo, T, per, unit=not fp_gt)
        if d:
            return d
        perfect = len(G) > 0 and len(pairs) == len(G) and all(j is not None and le[i] == lg[j] for i, j in pairs) and not fp_gt
        all_perfect = all_perfect and (perfect or (not E and not G))
        if perfect and fo["summary"] != [1.0, 1.0, 1.0, 1.0]:
            return f"frame {k}: every ground truth paired with an equally-labelled estimate, nothing else reported, but summary = {fo['summary']}"
        for t in T:
            for q in range(3):
                pooled[t][q] += per[t][q]
    d = _chk_scores("scene", out["scene"], T, pooled, unit=not scene_fp_gt)
    if d:
        return d
    if all_perfect and sum(v[1] for v in pooled.values()) > 0:
        if out["scene"]["summary"] != [1.0, 1.0, 1.0, 1.0]:
            return f"every frame perfect but the scene summary = {out['scene']['summary']}"
        for t, a in zip(T, out["scene"]["accs"]):
            if pooled[t][1] > 0 and [a[x] for x in ("accuracy", "precision", "recall", "f1")] != [1.0] * 4:
                return f"every frame perfect but the scene scores of {t} are {a}"
    return None


def _chk_scores(name, so, T, per, unit=True):
    """one ClassificationMetricsScore against the counts per[label] = [results, ground truths, label-correct results];
    unit: assert the [0,1] range too (not when a ground truth carries the FP label, see ASSUMPTIONS)"""
    if so.get("n_scores") != 1:
        return f"{name}: {so.get('n_scores')} classification scores instead of one"
    if so["labels"] != [[t] for t in T]:
        return f"{name}: accuracies are for {so['labels']}, targets {T}"
    S = [0, 0, 0]
    for t, a in zip(T, so["accs"]):
        n, ngt, tp = per[t]
        d = _chk_acc(f"{name}.accuracies[{t}]", a, tp, n, ngt, unit)
        if d:
            return d
        if a["num_gt"] != ngt:
            return f"{name}: num_ground_truth of the {t} accuracy is {a['num_gt']}, {ngt} ground truths carry that label"
        S[0] += n; S[1] += ngt; S[2] += tp
    p, r = _frac_ratio(S[2], S[0]), _frac_ratio(S[2], S[1])
    f1 = None if (p is None or r is None or p + r == 0) else 2 * p * r / (p + r)
    for k, got, want in zip(("accuracy", "precision", "recall", "f1"), so["summary"], (_frac_ratio(S[2], S[0] + S[1] - S[2]), p, r, f1)):
        d = _chk_score(f"{name}.summary.{k}", got, want, unit)
        if d:
            return d
    return None


def oracle(case, out):
    """every clause of the property; a failure of the maximality clause alone is reported last (MAX_TAG), any other failing
    clause first -- so a MAX_TAG failure means: everything else holds"""
    other, short = _check(case, out)
    if other:
        return other
    if short:
        return MAX_TAG + "; ".join(s["msg"] for s in short[:3])
    return None


def known_finding(case, out, failure):
    """C11-N1 (label-first traffic-light pairing, ground truth with the FP label): a pair with an FP-labelled ground truth
    is label-correct whatever the estimate says, but the label stage pairs EQUAL labels only, greedily in list order, so an
    estimate that shares the uuid of an FP-labelled ground truth may be spent on an equally-labelled ground truth that another
    estimate could have taken.  Signature (Lean: tlr_tp_exact, tlr_tp_maximum, tlr_tp_maximum_up_to_fp): ONLY the maximality
    clause fails; label-first mode; in every camera (and frame) where it fails there is an FP-labelled ground truth and the
    shortfall is at most their number; and the results are exactly the greedy two-stage pairing in list order."""
    if not isinstance(failure, str) or not failure.startswith(MAX_TAG):
        return None
    other, short = _check(case, out)
    if other or not short:
        return None
    for s in short:
        if s["uf"] or s["fp_gts"] < 1 or not (0 < s["max"] - s["got"] <= s["fp_gts"]):
            return None
        if s["pairs"] != s["expected_by_signature"]:
            return None
    return N1


def _check(case, out):
    """-> (first failure of any clause other than maximality | None, [maximality shortfalls])"""
    short = []
    return _oracle_rest(case, out, short), short


def _oracle_rest(case, out, short):
    if case.get("kind") == "manager":
        return _oracle_manager(case, out, short)
    if case.get("kind") == "divide":
        E, G, link = _div_specs(case)
        c2 = {"fe": case["fam"], "fg": case["fam"], "targets": case["targets"]}
        if "err" in out:
            return f"raised {out['err']} on a well-formed result list"
        if out["pairs"] != [[i, link[i]] for i in range(len(E))]:
            return "harness: result list not as built"
        return _oracle_scores(c2, E, G, out, whole=False)
    if not case.get("domain", True):
        return None
    E, G = case["ests"], case["gts"]
    if "err" in out:
        return f"raised {out['err']} on unique non-null uuids"
    d = _oracle_pairing(case, E, G, out["pairs"], short)
    if d:
        return d
    return _oracle_scores(case, E, G, out)


def _oracle_pairing(case, E, G, pairs, short=None, where=""):
    """THE pairing statement of the property on one pair of lists (case gives the label families and uuid-first setting):
    same camera, every object at most once, generic: paired iff same uuid (and camera), traffic lights: label stage
    then uuid stage (the label stage first: as many equally-labelled pairs as any one-to-one same-camera pairing has),
    and the number of LABEL-CORRECT pairs the largest possible over the one-to-one pairings the rule admits.
    `short` (a list): a shortfall of that last clause is recorded there, per camera, instead of being returned, so that the
    caller can evaluate every other clause too (the signature of finding C11-N1 needs 'nothing else fails')."""
    P = [(i, j) for i, j in pairs if j is not None]
    Fp = [i for i, j in pairs if j is None]
    es = [i for i, _ in pairs]
    gs = [j for _, j in P]
    if len(set(es)) != len(es):
        return f"an estimate appears in two results: {pairs}"
    if len(set(gs)) != len(gs):
        return f"a ground truth appears in two results: {pairs}"
    for i, j in P:
        if E[i][1] != G[j][1]:
            return f"pair ({i},{j}) crosses cameras {E[i][1]} / {G[j][1]}"
    if not E and pairs:
        return "results without estimates"
    same_uuid = {(i, j) for i in range(len(E)) for j in range(len(G)) if E[i][2] == G[j][2] and E[i][1] == G[j][1]}
    le = [_lab(case, "e", s) for s in E]
    lg = [_lab(case, "g", s) for s in G]
    tlr = bool(E) and bool(G) and case["fe"] == "tl"
    if E and G and (not tlr or case["uf"]):
        if set(P) != same_uuid:
            return f"paired {sorted(P)} but same-uuid-same-camera pairs are {sorted(same_uuid)}"
    if tlr and not case["uf"]:
        ue = set(range(len(E))) - set(es)
        ug = set(range(len(G))) - set(gs)
        for i, j in P:
            if le[i] != lg[j] and (i, j) not in same_uuid:
                return f"pair ({i},{j}) agrees neither in label nor in uuid"
        for i in ue:
            for j in ug:
                if E[i][1] == G[j][1] and le[i] == lg[j]:
                    return f"unused equally-labelled same-camera pair ({i},{j}) remains"
                if (i, j) in same_uuid:
                    return f"unused same-uuid same-camera pair ({i},{j}) remains"
        got = sum(1 for i, j in P if le[i] == lg[j])
        ke = [(le[i], E[i][1]) for i in range(len(E))]
        kg = [(lg[j], G[j][1]) for j in range(len(G))]
        best = _max_equal_pairs(ke, kg) if len(E) <= 6 and len(G) <= 6 else _class_sum(ke, kg)
        if got != best:
            return f"{got} equally-labelled pairs, but a one-to-one same-camera pairing with {best} exists"
    if tlr:
        # "... so that the number of label-correct pairs is the largest possible under that rule" -- the count the metrics use
        # (is_label_correct: equal labels, or an FP-labelled ground truth), against every one-to-one pairing whose pairs the
        # rule can form.  Pairs never cross cameras, so the maximum is taken camera by camera.
        for cam in sorted({s[1] for s in E} & {s[1] for s in G}):
            ie = [i for i, s in enumerate(E) if s[1] == cam]
            ig = [j for j, s in enumerate(G) if s[1] == cam]
            got = sum(1 for i, j in P if E[i][1] == cam and _label_correct(le[i], lg[j]))
            best, wit = _max_label_correct(case["uf"], E, G, le, lg, ie, ig)
            if got > best:
                return f"{where}camera {cam}: {got} label-correct pairs reported, more than any pairing the rule admits ({best})"
            if got < best:
                nfp = sum(1 for j in ig if lg[j][1] == FP_NAME)
                msg = (f"{where}camera {cam}: {got} label-correct pair(s) reported (results {pairs}), but the one-to-one pairing "
                       f"{wit} -- every pair with equal {'uuid' if case['uf'] else 'label or equal uuid'}, same camera -- has {best}; "
                       f"{nfp} ground truth(s) of that camera carry the FP label")
                if short is None:
                    return MAX_TAG + msg
                short.append({"msg": msg, "uf": bool(case["uf"]), "got": got, "max": best, "fp_gts": nfp,
                              "pairs": [list(p) for p in pairs], "expected_by_signature": _two_stage(case["uf"], E, G, le, lg)})
    return None


def _oracle_scores(case, E, G, out, whole=True):
    # ---- scores: counting definitions over the results, recomputed in Fractions
    pairs = out["pairs"]
    le = [_lab(case, "e", s) for s in E]
    lg = [_lab(case, "g", s) for s in G]
    fp_gt = any(s[0] == "false_positive" for s in G)

    def correct(i, j):
        return j is not None and (G[j][0] == "false_positive" or le[i] == lg[j])

    flags = [correct(i, j) for i, j in pairs]
    if "correct" in out and flags != out["correct"]:
        return f"is_label_correct {out['correct']} expected {flags}"
    tp = sum(flags)
    if whole:
        d = _chk_acc("whole", out["whole"], tp, len(pairs), len(G), True)
        if d:
            return d
    all_right = len(G) > 0 and len(pairs) == len(G) and all(j is not None and le[i] == lg[j] for i, j in pairs)
    if all_right and whole:
        for k in ("accuracy", "precision", "recall", "f1"):
            if out["whole"][k] != 1.0:
                return f"everything paired and right but whole.{k} = {out['whole'][k]}"
    if "divide" in out:
        d = _chk_buckets(case, E, G, out)
        if d:
            return d
    if "buckets" in out:
        T, exp = _expected_buckets(case, E, G, pairs)
        S = [0, 0, 0, 0]
        for t, b, sa in zip(T, out["buckets"], out["score_accs"]):
            rs = exp[t]  # the independent bucket, not the one the code produced
            btp = sum(1 for i, j in rs if correct(i, j))
            ngt = sum(1 for x in lg if x == t)
            d = _chk_acc("score.accuracies[" + t[1] + "]", sa, btp, len(rs), ngt, not fp_gt)
            if not d and b["acc"] is not sa:
                d = _chk_acc("bucket[" + t[1] + "]", b["acc"], btp, len(rs), ngt, not fp_gt)
            if d:
                return d
            if sa["num_gt"] != ngt or b["acc"]["num_gt"] != ngt:
                return f"num_ground_truth of the {t[1]} accuracy is {sa['num_gt']}, {ngt} ground truths carry that label"
            S[0] += len(rs); S[1] += ngt; S[2] += btp; S[3] += len(rs) - btp
        p, r = _frac_ratio(S[2], S[2] + S[3]), _frac_ratio(S[2], S[1])
        if p is None or r is None:
            f1 = None
        else:
            f1 = None if p + r == 0 else 2 * p * r / (p + r)
        for k, got, want in zip(("accuracy", "precision", "recall", "f1"), out["summary"],
                                (_frac_ratio(S[2], S[0] + S[1] - S[2]), p, r, f1)):
            d = _chk_score("summary." + k, got, want, not fp_gt)
            if d:
                return d
        labels_used = {s[0] for s in E} | {s[0] for s in G}
        if all_right and case["fe"] == case["fg"] and labels_used <= set(case["targets"]):
            if out["summary"] != [1.0, 1.0, 1.0, 1.0]:
                return f"everything paired and right but summary = {out['summary']}"
    return None


# ----------------------------------------------------------------------------- bookkeeping

def _bucket_branches(case, E, G, out):
    """which routes of the per-label bucketing a case takes (from the case and the result list only)"""
    br = []
    fe = case["fe"]
    T = {(fe, t) for t in case["targets"]}
    labs = {_lab(case, "e", s) for s in E} | {_lab(case, "g", s) for s in G}
    br.append("targets:exclude-a-used-label" if labs - T else "targets:cover-all-used-labels")
    keys = set()  # non-target keys created so far
    routes = set()
    for i, j in out["pairs"]:
        le = _lab(case, "e", E[i])
        lg = None if j is None else _lab(case, "g", G[j])
        if le in T:
            routes.add("bucket:by-est-label")
        elif lg is None:
            routes.add("bucket:dropped(no-target-est,no-gt)")
        elif lg in T:
            routes.add("bucket:by-gt-label")
            if le in keys:
                routes.add("bucket:by-gt-label-after-nontarget-key-equal-to-est-label")
        else:
            routes.add("bucket:nontarget-key")
            keys.add(lg)
    return br + sorted(routes)


def branches(case, out):
    return _branches0(case, out) + _table_branches() + (["table:witness"] if case.get("table_witness") else [])


def _branches_manager(case, out):
    br = ["kind:manager", f"manager:frames:{len(case['frames'])}", f"manager:targets:{len(case['targets'])}",
          f"manager:path:{'tlr:uf=%d' % case['uf'] if case['fam'] == 'tl' else 'generic'}", f"manager:cameras:{len(case['cams'])}"]
    if "err" in out:
        return br + ["manager:err:" + out["err"]]
    T = set(case["targets"])
    if any(o[0] not in T for fr in case["frames"] for o in fr["ests"] + fr["gts"]):
        br.append("manager:objects-outside-targets")
    if any(o[0] == "false_positive" for fr in case["frames"] for o in fr["gts"]):
        br.append("manager:fp-labelled-gt")
    for fr, fo in zip(case["frames"], out["frames"]):
        e, g = bool(_kept(case, fr["ests"])), bool(_kept(case, fr["gts"]))
        br.append("manager:frame:" + ("both" if e and g else "no-est" if g else "no-gt" if e else "empty"))
        if any(j is None for _, j in fo["pairs"]):
            br.append("manager:frame:fp-result")
        if fo["pairs"] and not all(fo["correct"]):
            br.append("manager:frame:wrong-label-pair")
        v = fo["summary"][3]
        br.append("manager:frame.f1:" + (v if isinstance(v, str) else "1" if v == 1.0 else "0" if v == 0.0 else "frac"))
    if not any(_kept(case, fr["ests"]) and _kept(case, fr["gts"]) for fr in case["frames"]):
        br.append("trivial")
    v = out["scene"]["summary"]
    br.append("manager:scene.f1:" + (v[3] if isinstance(v[3], str) else "1" if v[3] == 1.0 else "0" if v[3] == 0.0 else "frac"))
    br.append("manager:scene.accuracy:" + (v[0] if isinstance(v[0], str) else "1" if v[0] == 1.0 else "0" if v[0] == 0.0 else "frac"))
    return sorted(set(br))


def _branches0(case, out):
    if case.get("kind") == "manager":
        return _branches_manager(case, out)
    if case.get("kind") == "divide":
        E, G, _ = _div_specs(case)
        br = ["kind:divide", f"divide:size:{len(E)}", f"divide:targets:{len(case['targets'])}"]
        if case.get("xg"):
            br.append("divide:unpaired-gts")
        if "err" in out:
            return br + ["err:" + out["err"]]
        br += _bucket_branches({"fe": case["fam"], "fg": case["fam"], "targets": case["targets"]}, E, G, out)
        if "summary" in out:
            v = out["summary"][3]
            br.append("summary.f1:" + (v if isinstance(v, str) else "num"))
        else:
            br.append("divide:buckets-only")
        return br
    E, G = case["ests"], case["gts"]
    br = []
    if not E or not G:
        br.append("trivial")
        br.append("empty:" + ("both" if not E and not G else "est" if not E else "gt") + ":" + case["task"])
    path = "tlr" if case["fe"] == "tl" else "generic"
    br.append(f"path:{path}:uf={int(case['uf'])}" if path == "tlr" else "path:generic")
    br.append(f"size:{len(E)}+{len(G)}")
    if case["fe"] != case["fg"]:
        br.append("mixed-families")
    if not case.get("domain", True):
        br.append("malformed")
    if "err" in out:
        br.append("err:" + out["err"])
        return br
    P = [(i, j) for i, j in out["pairs"] if j is not None]
    n_fp = len(out["pairs"]) - len(P)
    if E and G:
        le = [_lab(case, "e", s) for s in E]
        lg = [_lab(case, "g", s) for s in G]
        s1 = sum(1 for i, j in P if le[i] == lg[j])
        if path == "tlr":
            br.append("tlr:label-pairs>0" if s1 else "tlr:label-pairs=0")
            br.append("tlr:uuid-only-pairs>0" if len(P) - s1 else "tlr:uuid-only-pairs=0")
            if any(le[i] == lg[j] and E[i][2] != G[j][2] for i, j in P):
                br.append("tlr:label-pair-with-different-uuid")
        else:
            left = set(range(len(E))) - {i for i, _ in P}
            if left:
                br.append("generic:fp-tail" if n_fp else "generic:fp-tail-suppressed(CAM_TRAFFIC_LIGHT)")
            else:
                br.append("generic:no-leftover")
        br.append("cameras:" + str(len({s[1] for s in E + G})))
        if len(P) < min(len(E), len(G)):
            br.append("unpaired-on-both-sides")
    if any(s[0] == "false_positive" for s in G):
        br.append("fp-labelled-gt")
    for k in ("accuracy", "precision", "recall", "f1"):
        v = out["whole"][k]
        br.append(f"whole.{k}:" + (v if isinstance(v, str) else "1" if v == 1.0 else "0" if v == 0.0 else "frac"))
    if "summary" in out:
        v = out["summary"][3]
        br.append("summary.f1:" + (v if isinstance(v, str) else "num"))
        br += ["pair:" + b for b in _bucket_branches(case, E, G, out)]
    return br


def shrink(case):
    if case.get("kind") == "manager":
        fs = case["frames"]
        for k in range(len(fs)):
            if len(fs) > 1:
                c = dict(case); c["frames"] = fs[:k] + fs[k + 1:]
                yield c
        for k in range(len(fs)):
            for side in ("ests", "gts"):
                for i in range(len(fs[k][side])):
                    f2 = dict(fs[k]); f2[side] = fs[k][side][:i] + fs[k][side][i + 1:]
                    c = dict(case); c["frames"] = fs[:k] + [f2] + fs[k + 1:]
                    yield c
        return
    if case.get("kind") == "divide":
        rs = case["rs"]
        for i in range(len(rs)):
            c = dict(case); c["rs"] = rs[:i] + rs[i + 1:]
            yield c
        for i in range(len(case.get("xg", []))):
            c = dict(case); c["xg"] = case["xg"][:i] + case["xg"][i + 1:]
            yield c
        if len(case["targets"]) > 1:
            for i in range(len(case["targets"])):
                c = dict(case); c["targets"] = case["targets"][:i] + case["targets"][i + 1:]
                yield c
        if case.get("split"):
            c = dict(case); c["split"] = 0
            yield c
        return
    E, G = case["ests"], case["gts"]
    for i in range(len(E)):
        c = dict(case); c["ests"] = E[:i] + E[i + 1:]
        yield c
    for j in range(len(G)):
        c = dict(case); c["gts"] = G[:j] + G[j + 1:]
        yield c
    if case.get("split"):
        c = dict(case); c["split"] = 0
        yield c
    if case["task"] != "classification2d":
        c = dict(case); c["task"] = "classification2d"
        yield c
    # permuted order (neighbourhood of a diverging case)
    if len(E) > 1:
        c = dict(case); c["ests"] = E[1:] + E[:1]
        yield c
    if len(G) > 1:
        c = dict(case); c["gts"] = G[1:] + G[:1]
        yield c


def search(rng, st, disagreements):
    cases = table_witness_cases()
    for _ in range(6000):
        cases.append(_random_case(rng, 6))
    for _ in range(6000):
        cases.append(_random_divide(rng, 6))
    for i in range(3000):
        cases.append(_random_scene(rng, perfect=(i % 8 == 0)))
    return cases
