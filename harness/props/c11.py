"""C11 — classification pairs objects by identity and scores them by label agreement.

Tie to the code: REAL ROI-less `DynamicObject2D` lists go through the real `get_object_results`,
`ClassificationAccuracy`, `divide_objects(_to_num)` and `ClassificationMetricsScore._summarize`; the same
lists go to the Lean model (`PEval.Model.Classification`), the results are compared by harness id as a SET of pairs
(the property does not order them), counts exactly, defined scores within 1e-9 (an undefined score -- zero denominator --
is not compared: "whenever defined").

Manager level (kind 'manager'): the same statement where a user observes it -- a real `PerceptionEvaluationManager`
(`evaluation_task="classification2d"`, no dataset) is given hand-made frames through `add_frame_result` and asked for
`get_scene_result()`; the oracle reads `frame_result.object_results` and the `ClassificationMetricsScore` of every frame's
and of the scene's `MetricsScore` (`MetricsScore.evaluate_classification`); the Lean model pairs and scores every frame and
scores the pooled scene.

The oracle is independent of the model: pairing rules re-derived from uuids / labels / cameras, one-to-one
use, the label stage's precedence (as many equally-labelled pairs as any one-to-one same-camera pairing has), THE
maximality clause as the property words it -- the number of LABEL-CORRECT pairs (the TP count the metrics use:
equal labels, or a ground truth with the FP label) is the largest over all one-to-one same-camera pairings every
pair of which the rule can form (label-first: equal label or equal uuid, Lean `PEval.C11.RuleAdmissible`;
uuid-first: equal uuid), computed per camera by exhaustive search (<= 4+4) / augmenting paths -- metric formulas
recomputed in Fractions and their ranges.

Known finding C11-N1 (`known_finding`): with an FP-labelled ground truth the label-first pairing is NOT always maximal
in that sense (the label stage pairs equal labels only, greedily in list order).  A failure of the maximality clause is
attributed to it iff nothing else fails, the mode is label-first, every camera (frame) where it fails holds an
FP-labelled ground truth, the shortfall is at most their number (Lean: tlr_tp_maximum_up_to_fp; without such a ground
truth the count IS maximal: tlr_tp_maximum) and the paired results are, as a set, the greedy two-stage pairing (for one of
the four scan orders: which equally-labelled candidate is taken first is a tie the property leaves open).
Stored replays: harness/corpus/c11/n1_*.json.
"""
from __future__ import annotations

import itertools
import math
from fractions import Fraction

from .. import core

PROP = "C11"
EXHAUSTIVE = True  # label assignments x layouts listed in RULE; layouts and the larger sets are sampled
RULE = (
    "exhaustive: every label assignment over 3 labels for every (n_est, n_gt) <= 3+3 (quick) / 4+4 (thorough, capped "
    "to the time budget) x fixed+seeded camera/uuid layouts (2 cameras, uuids unique per side and camera) x "
    "{TrafficLightLabel with uuid_matching_first in {False, True}, AutowareLabel}; one sweep with the FP label among "
    "the three (both sides, FP a target label); one sweep with estimates over {green, red} and ground truths over {green, red, FP} "
    "for every (n_est, n_gt) <= 3+3 (thorough 4+4, capped), fixed + seeded layouts incl. two cameras, both uuid-first settings, FP no "
    "target label (finding C11-N1 is hit here on fixed layouts, independent of the seed); stored replays harness/corpus/c11/*.json; "
    "seeded random sets up to 9+9 with 5 labels, 4 camera frames (incl. CAM_TRAFFIC_LIGHT), both tasks, "
    "random target-label lists, mixed label families; a malformed stream (null uuids, duplicate uuids per camera). "
    "per-label bucketing: (a) the aligned-uuid sweep over 3 labels, (n_est, n_gt) <= 3+3, repeated for every PROPER "
    "non-empty target subset (both label families, both uuid-first settings); (b) kind 'divide': result lists built "
    "directly (fresh estimate / ground-truth objects per result) -- EVERY ordered list of <= 4 results over 3 labels "
    "(estimate label x {ground-truth label, no ground truth} = 12 result types, so every listing order of every "
    "multiset) x all 7 non-empty target subsets, plus seeded lists of <= 8 results over 5 labels with unpaired "
    "ground truths and shuffled target lists. "
    "manager level (kind 'manager'): every label assignment over 3 labels for (n_est, n_gt) <= 2+2 as a one-frame scene and as a "
    "two-frame scene (second frame perfect), both label families, both uuid-first settings, target lists of 2 and 3 labels; "
    "the FP-on-the-ground-truth-side sweep (<= 2+2, thorough 3+3; FP-labelled ground truths are kept by the manager although FP "
    "is no target label) as one- and two-frame scenes, both settings; "
    "seeded scenes (about every fifth non-perfect one with FP-labelled ground truths) of 1-4 frames with up to 5+5 objects per frame in 1-3 of 4 camera frames (incl. CAM_TRAFFIC_LIGHT), 1-4 target "
    "labels, objects with labels outside the target list, empty sides / empty frames, every 8th scene perfect. "
    "non-trivial = both lists non-empty (manager: in some frame); distinct = distinct canonical case"
)
THEOREMS = [
    "PEval.C11." + t
    for t in [
        "pair_same_camera", "pair_members", "pair_used_once", "generic_total", "generic_pair_iff_same_uuid",
        "generic_fp_tail", "generic_null_uuid_error", "tlr_total", "tlr_null_uuid_error", "tlr_result_split", "tlr_stage1_maximal",
        "tlr_stage1_class_count", "tlr_stage2_pairs_by_uuid", "tlr_stage2_pairs_incorrect",
        "tlr_uuid_first_iff_same_uuid", "tlr_correct_pairs_maximum", "tp_le_num_gt", "metrics_def",
        "metrics_in_unit", "metrics_in_unit_results", "metrics_all_one", "metrics_all_one_results",
        "summarize_def", "summarize_in_unit", "summarize_all_one",
        # manager level: a scene pools the frames
        "pooled_counts", "scene_counts_sum", "countTp_sceneFrames_le", "scene_in_unit", "scene_all_one",
        # decision tables of the pairing kernels extracted from the real code (harness/dt_c11.py), regenerated on every run
        "pair_table_check", "pair_code_table_eq_model", "pair_code_table_eq_skel", "pair_code_table_eq_model_on_index",
        "consistent_1x1", "table_generic_1x1", "table_tlr_1x1",
        # relabelling invariance (lean/PEval/Lemmas/ClassificationSim.lean): the tables speak about ALL inputs of their shapes
        "pairing_relabelling_invariant", "pairing_index_form", "pair_table_rows_present", "uniqueKeys_consistent",
        "table_pairing_is_model",
        # label-correct (TP) count vs equal-label count: maximum of the count the metrics use, the FP-label case exactly,
        # uuid-first maximality
        "tp_eq_equal_plus_fp_only", "tp_eq_equal_of_no_fp_label", "tlr_tp_maximum", "tlr_tp_exact",
        "tlr_tp_maximum_up_to_fp", "tlr_tp_not_maximal_with_fp_label", "tlr_tp_not_maximal_1x1", "tlr_uuid_first_maximum",
    ]
] + ["PEval.ClassificationDT.skel_eq_model_on_index"]
TRUSTED = [
    "DynamicObject2D has no __eq__/__hash__: `in` and list.remove work by identity; the model uses the harness id",
    "harness/dt_c11.py + harness/dtable.py + harness/dt_multi.py (decision-table translator): stub objects (a subclass of the real "
    "DynamicObject2D exposing only uuid / frame_id / semantic_label / roi=None, identity semantics for `in` / `remove`), Boolean "
    "equality atoms treated as independent (no transitivity, no uniqueness of uuids: an over-approximation), at most two estimates "
    "and two ground truths, non-null uuids, the encoding of a result list as a number; the skeleton is tied to the model by "
    "exhaustive kernel evaluation on index objects (the model's loops with the tests as parameters), not by a proof over all objects",
    "divide_objects / divide_objects_to_num (objects_filter.py) are used by the harness to build the per-label buckets "
    "exactly as PerceptionFrameResult.evaluate_frame / get_scene_result do; the Lean model takes the buckets as inputs, "
    "the ORACLE recomputes them from the result list (est label, else ground-truth label) and the ground truths",
]
TRUSTED += [
    "the signature of known finding C11-N1 compares the real results with a Python re-statement of the greedy two-stage pairing "
    "(`_two_stage`, list order); it is used only to decide KNOWN-FINDING vs VIOLATION for a case whose maximality clause already "
    "failed, never by the oracle; the maximum itself is computed without it (exhaustive search <= 4+4, augmenting paths above, "
    "cross-checked against each other and against literal enumeration during development)",
    "kind 'manager': a manager built with dataset_paths=[] (nothing is loaded); matplotlib's figure creation is short-cut (all "
    "managers of the process share one figure; the visualizer is never used); which objects reach the pairing is taken from the "
    "documented meaning of target_labels (label in the list, and every FP-labelled object whatever the list says; the cases do not "
    "use 'unknown' outside the list, no estimate carries the FP label); "
    "the scene's per-label result lists are not observable, the harness pools the frames' lists the way get_scene_result does "
    "([[]] + one list per frame, ground-truth numbers summed) for the model, the ORACLE counts from the pairs",
]
ASSUMPTIONS = [
    "objects are ROI-less DynamicObject2D, distinct Python objects; uuids non-null and unique per side and camera "
    "(the property's domain) for the oracle; null / duplicate uuids are compared with the model only (a difference is a counted skip)",
    "the [0,1] range is asserted for every defined score with ONE exact exemption, observation O3 of DESIGN section 7 (same root "
    "as known finding C11-N1: a pair with an FP-labelled ground truth is label-correct whatever the estimate says): a per-label "
    "accuracy (or the summary over the labels) whose label-correct count includes k >= 1 pairs with an FP-labelled ground truth "
    "that is not among the label's num_ground_truth, and whose count tp exceeds that num_ground_truth, may show recall / accuracy "
    "above 1 -- exactly tp/ngt, tp/(n+ngt-tp); the repaired convention (those ground truths counted: ngt + k) is accepted as well "
    "and must lie in [0,1]; any other value outside [0,1] is reported",
    "an UNDEFINED score (zero denominator) is not judged: the property says `whenever defined`; the code documents inf, one place "
    "returns nan",
    "per-label scores: a result is counted under its ESTIMATE's label when that is a target label; whether a result whose estimate "
    "label is no target is counted under its ground truth's label (today's divide_objects) or not at all is not stated by the "
    "property -- either convention is accepted, one per case; what IS asserted ('counting definitions over the pairs') is that the "
    "per-label counts do not depend on the order in which the results are listed (the same results reversed give the same counts). "
    "The return value of divide_objects itself (keys, order inside a bucket, non-target keys, identity of its inputs) is not judged",
    "unpaired estimates: reported as results without ground truth where get_object_results' docstring says so (`Otherwise, they all "
    "are FP`: no ground truth at all; the generic uuid path) and not reported for FP validation without ground truths (`will be "
    "ignored`); NOT judged where code and docstring part ways: the traffic-light path (drops them), an unpaired estimate on "
    "CAM_TRAFFIC_LIGHT (the whole tail is dropped), FP validation with ground truths",
    "correspondence: the implementation may return any label-first pairing that the oracle's pairing clauses admit (another tie "
    "winner; the repaired behaviour of C11-N1) -- then, and when results without ground truth differ where the text is silent, the "
    "scores are judged by the oracle alone and the case is a counted skip of the correspondence; null / duplicate uuids (outside "
    "the quantifier): agreement is recorded, any difference is a counted skip. The regenerated decision tables of the pairing "
    "kernels (theorems pair_table_check ...) compare the SET of pairs (result order forgotten; unpaired results of the traffic-light path "
    "forgotten) on the valuations an input with unique uuids per side and camera can induce (ClassificationDT.pairForb / "
    "dt_c11.FORB exclude 'one object shares uuid and camera with both objects of the other side'; what the code does there -- "
    "ValueError of list.remove, a guard, skipping -- is open); among several equally admissible partners they still tie the code "
    "to the model's list-order choice: a tie-order change of the traffic-light kernel (e.g. ground truths scanned in reverse) "
    "breaks them and is reported without a failing input",
    "maximality is asserted for the count the metrics use (label-correct pairs: equal labels, or the ground truth carries the FP "
    "label) against every one-to-one same-camera pairing all of whose pairs the rule can form -- label-first: equal label or equal "
    "uuid (Lean RuleAdmissible); uuid-first: equal uuid (there the answer is checked to be exactly the set of same-uuid same-camera "
    "pairs). A pair that is label-correct ONLY through the FP label and shares no uuid (estimate GREEN/a against ground truth FP/b) "
    "cannot be formed by the rule and is no competitor, so leaving it unpaired is not reported (Lean tlr_tp_not_maximal_1x1 states "
    "that behaviour). Separately the label stage's precedence is asserted: as many EQUALLY-labelled pairs as any one-to-one "
    "same-camera pairing has (label-first)",
    "known finding C11-N1: a failure of the maximality clause alone, label-first, with an FP-labelled ground truth in every camera "
    "(and frame) where it fails, a shortfall of at most their number there, and paired results that are, as a set, the greedy "
    "two-stage pairing for one of the four scan orders, is reported as KNOWN-FINDING, not as a violation; any maximality failure "
    "without an FP-labelled ground truth, with a larger shortfall, with other results, in uuid-first mode, or next to any other "
    "failing clause is a violation",
    "manager level: the 'all 1' statement is not asserted for a frame (scene) with an FP-labelled ground truth; which ground truths "
    "the manager keeps is C10's statement and not judged here; the per-label accuracies are looked up by their own target_labels",
]

TL = ["green", "red", "yellow", "unknown", "false_positive"]
AW = ["car", "bus", "pedestrian", "unknown", "false_positive"]
CAMS = ["cam_front", "cam_back", "cam_traffic_light", "cam_traffic_light_near"]
UU = ["a", "b", "c", "d", "e", "f", "g", "h", "i", "j", "k", "l"]

_C = {}


def _mods():
    if not _C:
        from perception_eval.common.evaluation_task import EvaluationTask
        from perception_eval.common.label import AutowareLabel, Label, TrafficLightLabel
        from perception_eval.common.object2d import DynamicObject2D
        from perception_eval.common.schema import FrameID
        from perception_eval.evaluation.matching.objects_filter import divide_objects, divide_objects_to_num
        from perception_eval.evaluation.metrics.classification.accuracy import ClassificationAccuracy
        from perception_eval.evaluation.metrics.classification.classification_metrics_score import (
            ClassificationMetricsScore,
        )
        from perception_eval.evaluation.result.object_result import DynamicObjectWithPerceptionResult
        from perception_eval.evaluation.result.object_result import get_object_results

        _C.update(locals())
        _C["lab"] = {
            "tl": {m.value: m for m in TrafficLightLabel.__members__.values()},
            "aw": {m.value: m for m in AutowareLabel.__members__.values()},
        }
        _C["frame"] = {m.value: m for m in FrameID.__members__.values()}
        _C["task"] = {m.value: m for m in EvaluationTask.__members__.values()}
    return _C


# ----------------------------------------------------------------------------- cases
# object = [label, frame, uuid|None] ; family per side ("fe", "fg")

def _case(fam, uf, ests, gts, targets=None, task="classification2d", fg=None, split=0, domain=True):
    return {"kind": "pair", "fe": fam, "fg": fg or fam, "task": task, "uf": bool(uf), "ests": ests, "gts": gts,
            "targets": list(targets) if targets is not None else None, "split": split, "domain": domain}


def _layouts(ne, ng, rng, n_random):
    """camera / uuid layouts: (cams_e, uu_e, cams_g, uu_g) with uuids unique per side and camera"""
    out = []
    c0, c1 = CAMS[0], CAMS[1]
    ue, ug = UU[:ne], UU[:ng]
    out.append(([c0] * ne, ue, [c0] * ng, ug))  # one camera, uuids aligned
    out.append(([c0] * ne, ue, [c0] * ng, list(reversed(UU[1:ng + 1]))))  # shifted + reversed: partly disjoint
    # two cameras, the same uuid reused across cameras
    ce = [c0, c1, c0, c1][:ne]
    cg = [c0, c0, c1, c1][:ng]
    out.append((ce, ["a", "a", "b", "b"][:ne], cg, ["a", "b", "a", "b"][:ng]))
    for _ in range(n_random):
        cams = rng.sample(CAMS, 2)
        def side(n):
            cs = [rng.choice(cams) for _ in range(n)]
            used = {}
            us = []
            for c in cs:
                pool = [u for u in UU[: max(ne, ng) + 1] if u not in used.setdefault(c, set())]
                u = rng.choice(pool)
                used[c].add(u)
                us.append(u)
            return cs, us
        ce, ue_ = side(ne)
        cg, ug_ = side(ng)
        out.append((ce, ue_, cg, ug_))
    # drop duplicates
    seen, res = set(), []
    for l in out:
        k = repr(l)
        if k not in seen:
            seen.add(k)
            res.append(l)
    return res


def _sweep(rng, nmax, labels, fam, ufs, n_random, cap=None, target_sets=None, n_layouts=None, gt_labels=None):
    """every label assignment (estimates over `labels`, ground truths over `gt_labels` or `labels`) x layouts x ufs x target sets"""
    cases = []
    all_labels = list(labels) + [x for x in (gt_labels or []) if x not in labels]
    for ne in range(nmax + 1):
        for ng in range(nmax + 1):
            lays = _layouts(ne, ng, rng, n_random if ne + ng > 0 else 0)
            if n_layouts is not None:
                lays = lays[:n_layouts]
            for (ce, ue, cg, ug) in lays:
                for labs in itertools.product(*([labels] * ne + [gt_labels or labels] * ng)):
                    ests = [[labs[i], ce[i], ue[i]] for i in range(ne)]
                    gts = [[labs[ne + j], cg[j], ug[j]] for j in range(ng)]
                    for uf in ufs:
                        for k, tg in enumerate(target_sets or [all_labels]):
                            cases.append(_case(fam, uf, ests, gts, targets=tg, split=(ne + ng + k) % 3))
    if cap is not None and len(cases) > cap:
        # keep every size; thin out uniformly (thorough tier budget)
        step = len(cases) / cap
        cases = [cases[int(i * step)] for i in range(cap)]
    return cases


def _random_case(rng, nmax, malformed=False):
    fam = rng.choice(["tl", "tl", "aw"])
    fg = fam if rng.random() < 0.93 else ("aw" if fam == "tl" else "tl")
    pool_e = TL if fam == "tl" else AW
    pool_g = TL if fg == "tl" else AW
    k = rng.randint(2, 5)
    le = rng.sample(pool_e, min(k, len(pool_e)))
    lg = le if fg == fam else rng.sample(pool_g, min(k, len(pool_g)))
    if rng.random() < 0.7:  # FP labels are rare in classification data
        le = [x for x in le if x != "false_positive"] or ["unknown"]
        lg = [x for x in lg if x != "false_positive"] or ["unknown"]
    ne, ng = rng.randint(0, nmax), rng.randint(0, nmax)
    cams = rng.sample(CAMS, rng.choice([1, 2, 2, 2]))
    nu = max(ne, ng, 1) + rng.randint(0, 2)

    def side(n, labs):
        used = {}
        objs = []
        for _ in range(n):
            c = rng.choice(cams)
            pool = [u for u in UU[:nu] if u not in used.setdefault(c, set())]
            if not pool:
                continue
            u = rng.choice(pool)
            used[c].add(u)
            objs.append([rng.choice(labs), c, u])
        return objs

    ests, gts = side(ne, le), side(ng, lg)
    domain = True
    if malformed:
        domain = False
        kind = rng.choice(["null", "dup", "dup", "nullgt"])
        if kind == "null" and ests:
            rng.choice(ests)[2] = None
        elif kind == "nullgt" and gts:
            rng.choice(gts)[2] = None
        elif kind == "dup":
            sidel = rng.choice([ests, gts])
            if len(sidel) >= 2:
                a, b = rng.sample(range(len(sidel)), 2)
                sidel[b][1], sidel[b][2] = sidel[a][1], sidel[a][2]
            else:
                domain = True
        else:
            domain = True
    targets = None
    r = rng.random()
    allabs = sorted(set(pool_e[:4]))
    if r < 0.5:
        targets = sorted(set(le) | set(lg if fg == fam else []))
    elif r < 0.8:
        targets = rng.sample(allabs, rng.randint(1, len(allabs)))
    else:
        targets = list(pool_e)
    task = "classification2d" if rng.random() < 0.85 else "fp_validation2d"
    return _case(fam, rng.random() < 0.5, ests, gts, targets=targets, task=task, fg=fg, split=rng.randint(0, 3),
                 domain=domain)


def _subsets(labels, proper=False):
    out = [list(c) for k in range(1, len(labels) + 1) for c in itertools.combinations(labels, k)]
    return [t for t in out if len(t) < len(labels)] if proper else out


def _dcase(fam, rs, targets, split=0, xg=(), metrics=True):
    """kind 'divide': the result list is built directly, in this order. rs = [[est label, gt label | None], ...];
    xg = labels of additional ground truths that no estimate is paired with; metrics=False: only the buckets
    (divide_objects) are produced and checked, not the scores computed from them."""
    return {"kind": "divide", "fam": fam, "rs": [list(r) for r in rs], "targets": list(targets), "split": split,
            "xg": list(xg), "metrics": bool(metrics)}


def _divide_sweep(labels, fam, nmax, metrics_upto=None):
    """every ordered result list of 1..nmax results over `labels` x every non-empty target subset"""
    types = [[e, g] for e in labels for g in list(labels) + [None]]
    tsets = _subsets(labels)
    cases = []
    for n in range(1, nmax + 1):
        for rs in itertools.product(types, repeat=n):
            for k, tg in enumerate(tsets):
                cases.append(_dcase(fam, rs, tg, split=(n + k) % 3, metrics=metrics_upto is None or n <= metrics_upto))
    return cases


def _random_divide(rng, nmax):
    fam = rng.choice(["aw", "tl"])
    pool = AW if fam == "aw" else TL
    labs = rng.sample(pool[:4], rng.randint(2, 4))
    if rng.random() < 0.15:
        labs.append("false_positive")
    n = rng.randint(1, nmax)
    rs = [[rng.choice(labs), rng.choice(labs + [None])] for _ in range(n)]
    tg = rng.sample(pool[:4], rng.randint(1, 3)) if rng.random() < 0.85 else list(pool)
    xg = [rng.choice(labs) for _ in range(rng.choice([0, 0, 1, 2, 3]))]
    return _dcase(fam, rs, tg, split=rng.randint(0, 3), xg=xg)


# ----------------------------------------------------------------------------- manager level (kind 'manager')
# The classification path as a user drives it: PerceptionEvaluationManager(evaluation_task="classification2d") built without a
# dataset, add_frame_result per frame (filtering by target label, get_object_results, PerceptionFrameResult.evaluate_frame ->
# MetricsScore.evaluate_classification), then get_scene_result (the frames pooled).
# case = {"kind": "manager", "fam", "uf", "targets": [...], "cams": [...], "frames": [{"ests": [[label, cam, uuid]...], "gts": [...]}...]}

NON_TARGET = {"tl": ["green_left", "red_right", "red_left", "green_straight"], "aw": ["truck", "bicycle", "motorbike", "animal"]}


def _mcase(fam, uf, targets, cams, frames):
    return {"kind": "manager", "fam": fam, "uf": bool(uf), "targets": list(targets), "cams": list(cams),
            "frames": [{"ests": [list(o) for o in f["ests"]], "gts": [list(o) for o in f["gts"]]} for f in frames]}


def _kept(case, specs):
    """indices of the objects the manager evaluates: those whose label is a target label, and those with the FP label
    whatever the target list says (filter_objects keeps every FP-labelled object: it marks a place where nothing should be
    reported).  The cases do not use the 'unknown' label outside the target list, so this is the whole filtering rule."""
    T = set(case["targets"])
    return [i for i, o in enumerate(specs) if o[0] in T or o[0] == "false_positive"]


def _random_scene(rng, perfect=False):
    fam = rng.choice(["tl", "tl", "aw"])
    pool = (TL if fam == "tl" else AW)[:4]
    targets = rng.sample(pool, rng.randint(1, 4))
    labs = list(targets) + ([rng.choice(NON_TARGET[fam])] if rng.random() < 0.3 else [])
    cams = rng.sample(CAMS, rng.choice([1, 2, 2, 3]))
    nu = rng.randint(2, 6)
    # in every fifth scene or so some ground truths carry the FP label ("nothing should be reported here"); never in a perfect one
    p_fp = rng.choice([0.2, 0.4]) if (not perfect and rng.random() < 0.2) else 0.0
    frames = []
    for _ in range(rng.choice([1, 2, 2, 3, 4])):
        def side(n):
            used, objs = {}, []
            for _ in range(n):
                c = rng.choice(cams)
                pl = [u for u in UU[:nu] if u not in used.setdefault(c, set())]
                if pl:
                    u = rng.choice(pl)
                    used[c].add(u)
                    objs.append([rng.choice(labs), c, u])
            return objs
        r = rng.random()
        gts = side(0 if r < 0.08 else rng.randint(1, 5))
        if perfect:
            ests = [list(o) for o in gts if o[0] in targets]
            rng.shuffle(ests)
        elif r > 0.92:
            ests = []
        elif rng.random() < 0.5:  # mostly right: the ground truths with a few labels / uuids changed, some dropped, some added
            ests = [list(o) for o in gts if rng.random() < 0.85]
            for o in ests:
                if rng.random() < 0.3:
                    o[0] = rng.choice(labs)
            rng.shuffle(ests)
            keys = {(o[1], o[2]) for o in ests}
            for o in side(rng.randint(0, 2)):
                if (o[1], o[2]) not in keys:
                    keys.add((o[1], o[2]))
                    ests.append(o)
        else:
            ests = side(rng.randint(1, 5))
        if p_fp:  # after the estimates were derived: estimates never carry the FP label here
            for o in gts:
                if rng.random() < p_fp:
                    o[0] = "false_positive"
        frames.append({"ests": ests, "gts": gts})
    return _mcase(fam, rng.random() < 0.5, targets, cams, frames)


def _manager_cases(rng, tier):
    cases = []
    # every label assignment of the small pairing sweeps as a one-frame scene, and the same frame twice as a two-frame scene
    for fam, labs, ufs in (("tl", TL[:3], (False, True)), ("aw", AW[:3], (False,))):
        for c in _sweep(rng, 2, labs, fam, ufs, 1):
            fr = {"ests": c["ests"], "gts": c["gts"]}
            k = len(cases)
            cases.append(_mcase(fam, c["uf"], labs if k % 3 else labs[:2], CAMS[:2], [fr] if k % 2 else [fr, {"ests": c["gts"], "gts": c["gts"]}]))
    # ground truths with the FP label (kept by the manager whatever the target list says): every assignment of {green, red} to
    # <= 2 (thorough: 3) estimates and of {green, red, FP} to as many ground truths, one- and two-frame scenes, both settings
    for c in _sweep(rng, 2 if tier == "quick" else 3, TL[:2], "tl", (False, True), 1, gt_labels=TL[:2] + ["false_positive"]):
        if any(o[0] == "false_positive" for o in c["gts"]):
            fr = {"ests": c["ests"], "gts": c["gts"]}
            k = len(cases)
            cases.append(_mcase("tl", c["uf"], TL[:2] if k % 3 else TL[:3], CAMS[:2],
                                [fr] if k % 2 else [{"ests": [o for o in c["gts"] if o[0] != "false_positive"], "gts": c["gts"]}, fr]))
    n = 1500 if tier == "quick" else 20000
    for i in range(n):
        cases.append(_random_scene(rng, perfect=(i % 8 == 0)))
    return cases


_MG = {}


def _manager(case):
    """a newly constructed real manager without a dataset.  Only matplotlib's figure creation (the visualizer is never used
    here) is short-cut: all managers of this process share one figure."""
    import tempfile

    import matplotlib.pyplot as plt
    from perception_eval.config import PerceptionEvaluationConfig
    from perception_eval.manager import PerceptionEvaluationManager

    if "tmp" not in _MG:
        _MG["tmp"] = tempfile.mkdtemp(prefix="c11_")
    cfg = PerceptionEvaluationConfig(
        dataset_paths=[], frame_id=list(case["cams"]), result_root_directory=_MG["tmp"],
        evaluation_config_dict={"evaluation_task": "classification2d", "target_labels": list(case["targets"]),
                                "label_prefix": "traffic_light" if case["fam"] == "tl" else "autoware",
                                "merge_similar_labels": False, "allow_matching_unknown": True,
                                "uuid_matching_first": case["uf"]})
    orig = plt.subplots
    if "fig" not in _MG:
        _MG["fig"] = orig()
    plt.subplots = lambda *a, **k: _MG["fig"]
    try:
        return PerceptionEvaluationManager(cfg)
    finally:
        plt.subplots = orig


class HarnessSetupError(RuntimeError):
    """raised by harness code only (building objects / managers / buckets): run_check files it as an infrastructure error"""


def _setup(fn, what):
    """a SET-UP step that uses the library as a tool; its failure says nothing about pairing or scoring"""
    try:
        return fn()
    except Exception as e:  # noqa: BLE001
        raise HarnessSetupError(f"{what}: {type(e).__name__}: {e}")


UNOBSERVABLE = {}


def _unobs(name):
    UNOBSERVABLE[name] = UNOBSERVABLE.get(name, 0) + 1


def _summary_of(sc):
    """ClassificationMetricsScore._summarize() (anchor `observe_at`; a private name: resolved with getattr, the summary is
    dropped from the observation when it is not there)"""
    fn = getattr(sc, "_summarize", None)
    if fn is None:
        _unobs("ClassificationMetricsScore._summarize")
        return None
    return [_fl(x) for x in fn()]


def _score_out(M, ms):
    """the classification part of a MetricsScore (the last classification score when there are several)"""
    o = {"n_scores": len(ms.classification_scores)}
    if ms.classification_scores:
        sc = ms.classification_scores[-1]
        o["accs"] = [_acc(a) for a in sc.accuracies]
        o["labels"] = [[x.value for x in a.target_labels] for a in sc.accuracies]
        o["summary"] = _summary_of(sc)
    return o


def _run_manager(case):
    """`out["err"]` comes from add_frame_result / get_scene_result (and reading the scores they produced) only; building the
    manager, the configs, the objects and the harness's own bucket bookkeeping are set-up (HarnessSetupError)"""
    M = _mods()
    from perception_eval.common.dataset import FrameGroundTruth
    from perception_eval.evaluation.result.perception_frame_config import CriticalObjectFilterConfig, PerceptionPassFailConfig

    mk, Label, tab = M["DynamicObject2D"], M["Label"], M["lab"][case["fam"]]
    m = _setup(lambda: _manager(case), "PerceptionEvaluationManager without a dataset")
    cfg = m.evaluator_config
    crit = _setup(lambda: CriticalObjectFilterConfig(cfg, list(case["targets"])), "CriticalObjectFilterConfig")
    pf = _setup(lambda: PerceptionPassFailConfig(cfg, list(case["targets"])), "PerceptionPassFailConfig")
    targets = [t.value for t in m.target_labels]
    if targets != list(case["targets"]):
        raise HarnessSetupError(f"the manager's target labels {targets} are not the configured {case['targets']}")
    out = {"frames": [], "targets": targets}
    for k, fr in enumerate(case["frames"]):
        ests = _setup(lambda: [mk(100 + k, M["frame"][c], 1.0, Label(tab[l], l), None, u) for (l, c, u) in fr["ests"]], "estimates")
        gts = _setup(lambda: [mk(100 + k, M["frame"][c], 1.0, Label(tab[l], l), None, u) for (l, c, u) in fr["gts"]], "ground truths")
        eid = {id(o): i for i, o in enumerate(ests)}
        gid = {id(o): i for i, o in enumerate(gts)}
        ekey = {(o.uuid, o.frame_id.value, o.semantic_label.name): i for i, o in enumerate(ests)}
        gkey = {(o.uuid, o.frame_id.value, o.semantic_label.name): i for i, o in enumerate(gts)}

        def ix(o, by_id, by_key):
            # the object itself, else (a manager that evaluates copies) the object with the same uuid, camera and label name
            i = by_id.get(id(o))
            return i if i is not None else by_key.get((o.uuid, o.frame_id.value, o.semantic_label.name), -1)

        def rid(r):
            g = r.ground_truth_object
            return [ix(r.estimated_object, eid, ekey), None if g is None else ix(g, gid, gkey)]

        frame = _setup(lambda: FrameGroundTruth(100 + k, str(k), list(gts)), "FrameGroundTruth")
        try:
            r = m.add_frame_result(100 + k, frame, list(ests), crit, pf)
            fo = {"pairs": [rid(x) for x in r.object_results], "correct": [bool(x.is_label_correct) for x in r.object_results],
                  "gts_kept": [ix(g, gid, gkey) for g in r.frame_ground_truth.objects]}
            fo.update(_score_out(M, r.metrics_score))
        except HarnessSetupError:
            raise
        except Exception as e:
            return {"err": type(e).__name__, "where": f"add_frame_result (frame {k})"}
        # the per-label buckets for the MODEL (which takes them as given), formed the way evaluate_frame / get_scene_result do
        d = _setup(lambda: M["divide_objects"](r.object_results, m.target_labels), "divide_objects (harness bookkeeping)")
        n = _setup(lambda: M["divide_objects_to_num"](r.frame_ground_truth.objects, m.target_labels), "divide_objects_to_num")
        fo["buckets"] = [[rid(x) for x in d[t]] for t in m.target_labels]
        fo["bucket_num_gt"] = [n[t] for t in m.target_labels]
        out["frames"].append(fo)
    try:
        out["scene"] = _score_out(M, m.get_scene_result())
    except HarnessSetupError:
        raise
    except Exception as e:
        return {"err": type(e).__name__, "where": "get_scene_result"}
    return out


def corpus():
    g, r, y = "green", "red", "yellow"
    f, b, t = CAMS[0], CAMS[1], CAMS[2]
    cs = []
    # stage 1 greedy by label steals the uuid partner; stage 2 pairs the rest by uuid
    cs.append(_case("tl", False, [[g, f, "a"], [r, f, "b"]], [[r, f, "a"], [g, f, "b"]], targets=[g, r]))
    cs.append(_case("tl", True, [[g, f, "a"], [r, f, "b"]], [[r, f, "a"], [g, f, "b"]], targets=[g, r]))
    # same uuid in two cameras: no cross-camera pairing in either stage
    cs.append(_case("tl", False, [[g, f, "a"], [g, b, "a"]], [[g, b, "a"], [r, f, "a"]], targets=[g, r]))
    cs.append(_case("aw", False, [["car", f, "a"], ["bus", b, "a"]], [["car", b, "a"], ["car", f, "b"]], targets=["car", "bus"]))
    # FP tail and its CAM_TRAFFIC_LIGHT exception (generic labels on the integrated TLR camera)
    cs.append(_case("aw", False, [["car", f, "a"], ["bus", f, "c"]], [["car", f, "a"]], targets=["car", "bus"]))
    cs.append(_case("aw", False, [["car", f, "a"], ["bus", t, "c"], ["bus", f, "d"]], [["car", f, "a"]], targets=["car", "bus"]))
    # empty sides, both tasks
    for task in ("classification2d", "fp_validation2d"):
        cs.append(_case("tl", False, [[g, f, "a"]], [], targets=[g], task=task))
        cs.append(_case("aw", False, [["car", f, "a"]], [], targets=["car"], task=task))
        cs.append(_case("tl", False, [], [[g, f, "a"]], targets=[g], task=task))
    cs.append(_case("tl", False, [], [], targets=[g]))
    # null uuid -> RuntimeError ; with an empty other side no loop body runs
    cs.append(_case("tl", False, [[g, f, None]], [[g, f, "a"]], targets=[g], domain=False))
    cs.append(_case("aw", False, [["car", f, "a"]], [["car", f, None]], targets=["car"], domain=False))
    cs.append(_case("aw", False, [["car", f, None]], [], targets=["car"], domain=False))
    # duplicate uuid in one camera: generic -> ValueError from list.remove, TLR guarded by `in`
    cs.append(_case("aw", False, [["car", f, "a"]], [["car", f, "a"], ["bus", f, "a"]], targets=["car"], domain=False))
    cs.append(_case("aw", False, [["car", f, "a"], ["bus", f, "a"]], [["car", f, "a"]], targets=["car"], domain=False))
    cs.append(_case("tl", True, [[g, f, "a"]], [[r, f, "a"], [g, f, "a"]], targets=[g, r], domain=False))
    # FP-labelled ground truth: label-correct whatever the estimate says (paired in stage 2 by uuid)
    cs.append(_case("tl", False, [[g, f, "a"], [g, f, "b"]], [["false_positive", f, "b"], [g, f, "a"]], targets=[g, r]))
    # everything right: all four scores 1
    cs.append(_case("tl", False, [[g, f, "a"], [r, b, "a"], [y, f, "c"]], [[r, b, "a"], [y, f, "c"], [g, f, "a"]], targets=[g, r, y]))
    # mixed families: dispatch on the first estimate; labels of different enums never agree
    cs.append(_case("tl", False, [["unknown", f, "a"]], [["unknown", f, "a"]], targets=["unknown"], fg="aw"))
    cs.append(_case("aw", False, [["unknown", f, "a"]], [["unknown", f, "a"]], targets=["unknown"], fg="tl"))
    # per-label buckets with labels outside the target list: an estimate whose own label is no target is scored under
    # its ground truth's label -- also when an EARLIER result (bus, bus) was filed under a non-target key
    cs.append(_case("aw", False, [["bus", f, "a"], ["bus", f, "b"], ["car", f, "c"]],
                    [["bus", f, "a"], ["car", f, "b"], ["car", f, "c"]], targets=["car"]))
    cs.append(_case("tl", True, [[r, f, "a"], [r, f, "b"], [g, f, "c"]],
                    [[r, f, "a"], [g, f, "b"], [g, f, "c"]], targets=[g]))
    cs.append(_dcase("aw", [["bus", "bus"], ["bus", "car"], ["car", "car"]], ["car"]))
    cs.append(_dcase("aw", [["bus", "pedestrian"], ["pedestrian", "car"], ["car", "car"]], ["car"], split=2))
    cs.append(_dcase("tl", [[r, y], [y, g], [r, None], [g, r], [y, y]], [g], xg=[g, r]))
    cs.append(_dcase("aw", [["bus", None], ["car", None]], ["car"]))
    cs.append(_dcase("aw", [["car", "car"]], ["bus", "car", "pedestrian"], xg=["bus"]))
    # manager level: a perfect two-frame scene (label stage steals the uuid partners), a scene with wrong labels, unpaired objects,
    # an empty frame and a label outside the target list, a generic scene with an FP tail
    cs.append(_mcase("tl", False, [g, r, y], [f, b], [
        {"ests": [[g, f, "a"], [r, f, "b"], [y, b, "c"]], "gts": [[r, f, "a"], [g, f, "b"], [y, b, "c"]]},
        {"ests": [[g, f, "a"]], "gts": [[g, f, "a"]]}]))
    cs.append(_mcase("tl", True, [g, r], [f, b], [
        {"ests": [[g, f, "a"], [r, f, "b"], [y, b, "c"]], "gts": [[r, f, "a"], [g, f, "b"], [y, b, "c"]]},
        {"ests": [], "gts": [[g, f, "a"]]}, {"ests": [[r, b, "d"]], "gts": []},
        {"ests": [[g, f, "a"], [g, b, "a"]], "gts": [[g, b, "a"], [r, f, "a"], ["green_left", f, "e"]]}]))
    cs.append(_mcase("aw", False, ["car", "bus"], [f, t], [
        {"ests": [["car", f, "a"], ["bus", f, "c"], ["truck", f, "d"]], "gts": [["car", f, "a"], ["bus", f, "b"]]},
        {"ests": [["car", f, "a"], ["bus", t, "c"]], "gts": [["bus", f, "a"]]}]))
    # stored replays (harness/corpus/c11/*.json): finding C11-N1 and its companions; {"case": ...} or {"cases": [...]}
    import json

    seen = {json.dumps(c, sort_keys=True) for c in cs}
    for p in sorted((core.VERIF / "harness" / "corpus" / "c11").glob("*.json")):
        d = json.loads(p.read_text())
        for c in ([d["case"]] if "case" in d else []) + list(d.get("cases", [])):
            k = json.dumps(c, sort_keys=True)
            if k not in seen:
                seen.add(k)
                cs.append(c)
    return cs


def _realise(eq, n, m, pool, fixed=None):
    """values for est 0..n-1 and gt 0..m-1 from `pool` with est_i == gt_j <=> eq[(i, j)] for the atoms given; `fixed[i]` =
    True / False: est i must / must not take pool[-1]"""
    import itertools

    for vals in itertools.product(pool, repeat=n + m):
        E, G = vals[:n], vals[n:]
        if all((E[i] == G[j]) == b for (i, j), b in eq.items() if i < n and j < m) and \
                all((E[i] == pool[-1]) == b for i, b in (fixed or {}).items() if i < n):
            return list(E), list(G)
    return None


def table_witness_cases():
    """concrete pairing cases realising the valuations on which the code's decision table (harness/dt_c11.py) and the
    model's skeleton differ; empty on an unchanged source. Never raises."""
    try:
        import re

        from .. import dt_c11

        shape_of = {nm: (f, n, m) for nm, f, n, m in dt_c11.SHAPES}
        cs = []
        for name, asg, rc, rm in dt_c11.table_disagreements(limit=60):
            f, n, m = shape_of[name]
            eq = {"uuid": {}, "frame": {}, "lab": {}}
            tl = {}
            for a, o in asg.items():
                mm = re.fullmatch(r"(uuid|frame|lab)\((\d),(\d)\)", a)
                if mm:
                    eq[mm.group(1)][(int(mm.group(2)), int(mm.group(3)))] = bool(o)
                mm = re.fullmatch(r"tl\((\d)\)", a)
                if mm:
                    tl[int(mm.group(1))] = bool(o)
            # atoms the path did not read: same camera, different uuids / labels unless stated
            for i in range(n):
                for j in range(m):
                    eq["frame"].setdefault((i, j), True)
            fam = "aw" if f == "G" else "tl"
            labs = (AW if fam == "aw" else TL)[:3]
            U = _realise(eq["uuid"], n, m, ["a", "b", "c", "d"])
            F = _realise(eq["frame"], n, m, [CAMS[0], CAMS[1], CAMS[2]], fixed=tl)
            Lb = _realise(eq["lab"], n, m, labs)
            if U is None or F is None or Lb is None:
                continue  # jointly unrealisable (the table treats the equality atoms as independent)
            ests = [[Lb[0][i], F[0][i], U[0][i]] for i in range(n)]
            gts = [[Lb[1][j], F[1][j], U[1][j]] for j in range(m)]

            def uniq(side):
                keys = [(o[1], o[2]) for o in side]
                return len(set(keys)) == len(keys)

            c = _case(fam, f == "T1", ests, gts, targets=labs, domain=uniq(ests) and uniq(gts))
            c["table_witness"] = {"shape": name, "valuation": {a: bool(o) for a, o in asg.items()}, "code_table": rc, "model": rm}
            cs.append(c)
        cs.sort(key=lambda c: not c["domain"])
        return cs
    except Exception:  # noqa: BLE001 - the witness step must never break the check
        return []


def extra_evidence():
    from .. import dt_c11

    return {"tables": dt_c11.evidence(), "unobservable": dict(UNOBSERVABLE), "accepted_differences_to_the_model": dict(ACCEPTED)}


_TB = {}


def _table_branches():
    if _TB.get("done"):
        return []
    _TB["done"] = True
    try:
        from .. import dt_c11

        ev = dt_c11.evidence()
        b = [f"table:untranslatable:{k}" for k in ev["decision_tables_untranslatable"]]
        if b:
            b.append("table:untranslatable")
        return b + [f"table:{k}:paths={v['paths']}" for k, v in ev["decision_tables"].items()]
    except Exception:  # noqa: BLE001
        return ["table:untranslatable"]


def generate(rng, tier):
    cases = table_witness_cases()
    if tier == "quick":
        cases += _sweep(rng, 3, TL[:3], "tl", (False, True), 2)
        cases += _sweep(rng, 3, AW[:3], "aw", (False,), 1)
        cases += _sweep(rng, 2, ["green", "red", "false_positive"], "tl", (False, True), 1)
        cases += _sweep(rng, 2, ["car", "bus", "false_positive"], "aw", (True,), 0)
        # FP label on the ground-truth side only, outside the target list (as in recorded data): finding C11-N1 lives here
        cases += _sweep(rng, 3, TL[:2], "tl", (False, True), 1, gt_labels=TL[:2] + ["false_positive"], target_sets=[TL[:2]])
        cases += _sweep(rng, 3, AW[:3], "aw", (False,), 0, n_layouts=1,
                        target_sets=[["car"], ["bus", "pedestrian"], ["pedestrian", "car"]])
        cases += _sweep(rng, 2, AW[:3], "aw", (False,), 0, n_layouts=1, target_sets=[["bus"], ["pedestrian"], ["car", "bus"]])
        cases += _sweep(rng, 2, TL[:3], "tl", (False, True), 0, target_sets=_subsets(TL[:3], True), n_layouts=1)
        cases += _divide_sweep(AW[:3], "aw", 4, metrics_upto=3)  # size 4: buckets only (scores sampled below)
        cases += _divide_sweep(TL[:3], "tl", 2)
        types = [[e, g] for e in AW[:3] for g in AW[:3] + [None]]
        for _ in range(6000):
            cases.append(_dcase("aw", [rng.choice(types) for _ in range(4)], rng.choice(_subsets(AW[:3])),
                                split=rng.randint(0, 3)))
        n_rand, n_mal, nmax, n_div = 4000, 800, 9, 3000
    else:
        cases += _sweep(rng, 3, TL[:3], "tl", (False, True), 4)
        cases += _sweep(rng, 4, TL[:3], "tl", (False, True), 2, cap=170000)
        cases += _sweep(rng, 4, AW[:3], "aw", (False,), 1, cap=60000)
        cases += _sweep(rng, 3, ["green", "red", "false_positive"], "tl", (False, True), 2)
        cases += _sweep(rng, 3, ["car", "bus", "false_positive"], "aw", (True,), 1)
        cases += _sweep(rng, 4, TL[:2], "tl", (False, True), 2, gt_labels=TL[:2] + ["false_positive"], target_sets=[TL[:2]], cap=60000)
        cases += _sweep(rng, 3, AW[:3], "aw", (False,), 1, target_sets=_subsets(AW[:3], True), n_layouts=2)
        cases += _sweep(rng, 3, TL[:3], "tl", (False, True), 0, target_sets=_subsets(TL[:3], True), n_layouts=1)
        cases += _divide_sweep(AW[:3], "aw", 4)
        cases += _divide_sweep(TL[:3], "tl", 4)
        cases += _divide_sweep(["car", "bus", "false_positive"], "aw", 3)
        n_rand, n_mal, nmax, n_div = 30000, 5000, 9, 30000
    for _ in range(n_div):
        cases.append(_random_divide(rng, 8))
    for _ in range(n_rand):
        cases.append(_random_case(rng, nmax))
    for _ in range(n_mal):
        cases.append(_random_case(rng, 5, malformed=True))
    cases += _manager_cases(rng, tier)
    return cases


# ----------------------------------------------------------------------------- implementation

_INF = float("inf")


def _fl(x):
    if x == _INF:
        return "inf"
    if x != x:
        return "nan"
    return float(x)


def _acc(a):
    return {"num_gt": a.num_ground_truth, "num": a.objects_results_num, "tp": a.num_tp, "fp": a.num_fp,
            "accuracy": _fl(a.accuracy), "precision": _fl(a.precision), "recall": _fl(a.recall), "f1": _fl(a.f1score),
            "results": {str(k): _fl(v) for k, v in a.results.items()}}


def _build(case):
    M = _mods()
    mk = M["DynamicObject2D"]
    Label = M["Label"]

    def objs(specs, fam):
        tab = M["lab"][fam]
        return [mk(100, M["frame"][fr], 1.0, Label(tab[lab], lab), None, uu) for (lab, fr, uu) in specs]

    return objs(case["ests"], case["fe"]), objs(case["gts"], case["fg"])


def _split(lst, k):
    """nested per-frame form handed to the metrics (list of lists)"""
    if k == 0:
        return [lst]
    cut = (len(lst) * k) // 4
    return [lst[:cut], lst[cut:]]


def _lkey(label):
    """enum member -> [family, value]"""
    return ["tl" if type(label).__name__ == "TrafficLightLabel" else "aw", label.value]


def _per_label(M, res, gts, targets, split, rid, out, separate=True, metrics=True):
    """what PerceptionFrameResult.evaluate_frame does for classification: divide_objects, divide_objects_to_num,
    ClassificationMetricsScore.  Recorded: the buckets handed to the metrics (the Lean model takes them as given), the scores,
    and -- for the clause 'the counts do not depend on the order in which the results are listed' -- per target label the
    number of results and of label-correct results when the same results are listed forwards and backwards"""
    d = M["divide_objects"](res, targets)
    d_rev = M["divide_objects"](list(reversed(res)), targets)

    def counts(dd):
        return [[len(dd[t]), sum(1 for r in dd[t] if r.is_label_correct)] for t in targets]

    out["label_counts"] = counts(d)
    out["label_counts_reversed"] = counts(d_rev)
    if not metrics:
        return
    n = M["divide_objects_to_num"](gts, targets)
    out["buckets"] = []
    od = {}
    for t in targets:
        frames = _split(d[t], split)
        od[t] = frames
        b = {"label": t.value, "frames": [[rid(r) for r in f] for f in frames], "num_gt": n[t]}
        if separate:  # a ClassificationAccuracy of its own, next to the one ClassificationMetricsScore builds
            b["acc"] = _acc(M["ClassificationAccuracy"](frames, n[t], [t]))
        out["buckets"].append(b)
    sc = M["ClassificationMetricsScore"](od, n, targets)
    out["score_accs"] = [_acc(a) for a in sc.accuracies]
    out["score_labels"] = [[x.value for x in a.target_labels] for a in sc.accuracies]
    if not separate:
        for b in out["buckets"]:
            hit = [a for a, l in zip(out["score_accs"], out["score_labels"]) if l == [b["label"]]]
            b["acc"] = hit[0] if len(hit) == 1 else None
    out["summary"] = _summary_of(sc)


def _div_specs(case):
    """kind 'divide' -> (E, G, link): specs in the shape of the 'pair' kind; link[i] = index in G of est i's partner"""
    cam = CAMS[0]
    E, G, link = [], [], []
    for i, (e, g) in enumerate(case["rs"]):
        E.append([e, cam, "u%d" % i])
        if g is None:
            link.append(None)
        else:
            link.append(len(G))
            G.append([g, cam, "u%d" % i])
    for k, g in enumerate(case.get("xg", [])):
        G.append([g, cam, "x%d" % k])
    return E, G, link


def _run_divide(case):
    M = _mods()
    fam = case["fam"]
    tab, mk, Label, Res = M["lab"][fam], M["DynamicObject2D"], M["Label"], M["DynamicObjectWithPerceptionResult"]
    cam = M["frame"][CAMS[0]]

    def build():
        # fresh objects per result, in the layout of _div_specs: est i <-> gt "u<i>", then the unpaired gts
        eid, gid, gts, res = {}, {}, [], []
        for i, (e, g) in enumerate(case["rs"]):
            est = mk(100, cam, 1.0, Label(tab[e], e), None, "u%d" % i)
            eid[id(est)] = i
            gt = None
            if g is not None:
                gt = mk(100, cam, 1.0, Label(tab[g], g), None, "u%d" % i)
                gid[id(gt)] = len(gts)
                gts.append(gt)
            res.append(Res(est, gt))
        for k, g in enumerate(case.get("xg", [])):
            gt = mk(100, cam, 1.0, Label(tab[g], g), None, "x%d" % k)
            gid[id(gt)] = len(gts)
            gts.append(gt)
        return eid, gid, gts, res, [tab[t] for t in case["targets"]]

    eid, gid, gts, res, targets = _setup(build, "result list of a 'divide' case")

    def rid(r):
        g = r.ground_truth_object
        return [eid[id(r.estimated_object)], None if g is None else gid[id(g)]]

    metrics = case.get("metrics", True)
    out = {"pairs": [rid(r) for r in res]}
    try:  # the scoring the property is about: is_label_correct, per-label ClassificationAccuracy, ClassificationMetricsScore
        if metrics:
            out["correct"] = [bool(r.is_label_correct) for r in res]
        _per_label(M, res, gts, targets, case["split"], rid, out, separate=False, metrics=metrics)
    except Exception as e:
        return {"err": type(e).__name__, "where": "scoring"}
    return out


def run_impl(case):
    """`out["err"]` comes from get_object_results (where: pairing) or from the classification scoring of its results (where:
    scoring); building the objects is set-up"""
    if case.get("kind") == "divide":
        return _run_divide(case)
    if case.get("kind") == "manager":
        return _run_manager(case)
    M = _mods()
    ests, gts = _setup(lambda: _build(case), "objects of the case")
    eid = {id(o): i for i, o in enumerate(ests)}
    gid = {id(o): i for i, o in enumerate(gts)}
    targets = None
    if case["targets"] is not None:
        targets = [M["lab"][case["fe"]][t] for t in case["targets"]]
    try:
        res = M["get_object_results"](M["task"][case["task"]], ests, gts, target_labels=targets,
                                      uuid_matching_first=case["uf"])
    except Exception as e:
        return {"err": type(e).__name__, "where": "pairing"}

    def rid(r):
        g = r.ground_truth_object
        return [eid.get(id(r.estimated_object), -1), None if g is None else gid.get(id(g), -1)]

    out = {"pairs": [rid(r) for r in res]}
    try:
        out["correct"] = [bool(r.is_label_correct) for r in res]
        whole = M["ClassificationAccuracy"](res, len(gts), targets or [])
        out["whole"] = _acc(whole)
        nested = M["ClassificationAccuracy"](_split(res, max(case["split"], 1)), len(gts), targets or [])
        out["whole_nested"] = _acc(nested)
        if targets is not None:
            _per_label(M, res, gts, targets, case["split"], rid, out)
    except Exception as e:
        return {"err": type(e).__name__, "where": "scoring", "pairs": out["pairs"]}
    return out


# ----------------------------------------------------------------------------- model

def _jobj(i, spec, fam):
    return {"id": i, "uuid": spec[2], "tl": fam == "tl", "label": spec[0], "frame": spec[1]}


def _manager_requests(case, out):
    """one pairing + scoring request per frame (the objects the manager evaluates, the frame's real buckets), then one scoring
    request for the scene: the frames' buckets pooled the way get_scene_result does ([[]] first), objects under scene-wide ids"""
    fam = case["fam"]
    reqs, all_e, all_g = [], [], []
    nt = len(case["targets"])
    pooled = [[[]] for _ in range(nt)]
    pooled_n = [0] * nt
    ok = "frames" in out and len(out["frames"]) == len(case["frames"])
    for k, fr in enumerate(case["frames"]):
        ke, kg = _kept(case, fr["ests"]), _kept(case, fr["gts"])
        fo = out["frames"][k] if ok else {}
        buckets = [{"frames": [b], "num_gt": n} for b, n in zip(fo.get("buckets", []), fo.get("bucket_num_gt", []))]
        reqs.append({"op": "case", "fpv": False, "uf": case["uf"], "ests": [_jobj(i, fr["ests"][i], fam) for i in ke],
                     "gts": [_jobj(j, fr["gts"][j], fam) for j in kg], "buckets": buckets})
        all_e += [_jobj(100 * k + i, fr["ests"][i], fam) for i in ke]
        all_g += [_jobj(100 * k + j, fr["gts"][j], fam) for j in kg]
        for t in range(min(nt, len(buckets))):
            pooled[t].append([[100 * k + i, None if j is None else 100 * k + j] for i, j in fo["buckets"][t]])
            pooled_n[t] += fo["bucket_num_gt"][t]
    if ok:
        reqs.append({"op": "buckets", "ests": all_e, "gts": all_g,
                     "buckets": [{"frames": pooled[t], "num_gt": pooled_n[t]} for t in range(nt)]})
    return reqs


ACCEPTED = {}


def _note(key):
    ACCEPTED[key] = ACCEPTED.get(key, 0) + 1


def _spairs(pairs):
    """the result list as the property sees it: a SET of (estimate, ground truth | None) -- the text does not order the results
    and no score depends on their order"""
    return sorted((list(p) for p in pairs), key=lambda p: (p[0], -1 if p[1] is None else p[1]))


def _pairs_verdict(c2, E, G, impl_pairs, model_pairs, task="classification2d"):
    """None = the same result set; "scores-open" = an accepted difference after which the scores of the two sides cannot be
    compared; otherwise a message.  Accepted differences (the Lean model follows today's code, the property leaves the point
    open or the code has a LISTED defect there):
      * results WITHOUT ground truth where the property does not say whether unpaired estimates are reported (traffic-light
        path, the CAM_TRAFFIC_LIGHT exception of the generic path, FP validation -- see `_fp_tail_stated`);
      * label-first traffic lights: any result the oracle's pairing clauses admit (another tie winner; the repaired behaviour
        of known finding C11-N1)."""
    a, b = _spairs(impl_pairs), _spairs(model_pairs)
    if a == b:
        return None
    pa, pb = [p for p in a if p[1] is not None], [p for p in b if p[1] is not None]
    if pa == pb and not _fp_tail_stated(c2, E, G, task, [tuple(p) for p in pa]):
        _note("compare:fp-results-differ-where-the-text-is-silent")
        return "scores-open"
    if c2["fe"] == "tl" and not c2["uf"] and all(0 <= p[0] < len(E) and (p[1] is None or 0 <= p[1] < len(G)) for p in a):
        # label-first traffic lights: WHICH of several equally-labelled candidates is taken is a tie the property leaves open
        # (the model walks the lists in order).  An implementation result that satisfies every pairing clause of the oracle --
        # maximality included, or missing it only in the way of known finding C11-N1 (so also the REPAIRED behaviour where the
        # model's greedy pairing misses the maximum) -- is admitted by the proved relation; the scores are then judged by the
        # oracle alone
        short_i = []
        oi = _oracle_pairing(c2, E, G, [list(p) for p in a], short_i, task=task)
        if oi is None and all(x["fp_gts"] >= 1 and 0 < x["max"] - x["got"] <= x["fp_gts"] for x in short_i):
            _note("compare:another-admissible-label-first-pairing")
            return "scores-open"
    return f"pairs: impl {a} != model {b}"


def _compare_manager(case, out, resps):
    if "err" in out:
        errs = [r["err"] for r in resps if "err" in r]
        # the domain of the manager cases is unique non-null uuids: the model never raises; raised vs returned
        return None if errs else f"impl raised {out['err']} in {out.get('where')}, model ok"
    nf = len(case["frames"])
    c2 = {"fe": case["fam"], "fg": case["fam"], "uf": case["uf"], "targets": case["targets"]}
    open_scores = False
    for k in range(nf):
        r, fo = resps[k], out["frames"][k]
        if "err" in r:
            return f"frame {k}: impl ok, model {r['err']}"
        fr = case["frames"][k]
        ke, kg = _kept(case, fr["ests"]), _kept(case, fr["gts"])
        E, G = [fr["ests"][i] for i in ke], [fr["gts"][j] for j in kg]
        pe, pg = {i: a for a, i in enumerate(ke)}, {j: a for a, j in enumerate(kg)}
        loc = lambda ps: [[pe.get(i, -1), None if j is None else pg.get(j, -1)] for i, j in ps]  # noqa: E731
        v = _pairs_verdict(c2, E, G, loc(fo["pairs"]), loc(r["pairs"]))
        if v == "scores-open":
            open_scores = True
            continue
        if v:
            return f"frame {k}: {v}"
        d = _compare_scores(f"frame {k}", fo, r, case["targets"])
        if d:
            return d
    if open_scores:
        return "skip"
    return _compare_scores("scene", out["scene"], resps[nf], case["targets"])


def _compare_scores(name, so, r, T):
    """T: the target labels, in the order of the model's buckets (the order of the request); the implementation's per-label
    accuracies are looked up by their own `target_labels`, not by position"""
    if not so.get("n_scores"):
        return f"{name}: no classification score"
    by_label = {}
    for lab, a in zip(so["labels"], so["accs"]):
        by_label.setdefault(tuple(lab), []).append(a)
    model_labels = [[t] for t in T] if len(T) == len(r["buckets"]) else None
    if model_labels is None:
        _unobs("per-label accuracies (structure)")
    else:
        for lab, m in zip(model_labels, r["buckets"]):
            hit = by_label.get(tuple(lab), [])
            if len(hit) != 1:
                _unobs("per-label accuracies (structure)")
                continue
            d = _acc_diff(f"{name}.accuracies{list(lab)}", hit[0], m)
            if d:
                return d
    if so.get("summary") is not None:
        for k, a, m in zip(("accuracy", "precision", "recall", "f1"), so["summary"], r["summary"]):
            if not _score_eq(a, m):
                return f"{name}.summary.{k}: impl {a} != model {m}"
    return None


def model_requests(case, out):
    if out.get("unexpected"):
        return []
    if case.get("kind") == "divide":
        return []  # the oracle is the reference for this kind (the Lean model takes the buckets as given)
    if case.get("kind") == "manager":
        return _manager_requests(case, out)
    req = {"op": "case", "fpv": case["task"].startswith("fp_validation"), "uf": case["uf"],
           "ests": [_jobj(i, s, case["fe"]) for i, s in enumerate(case["ests"])],
           "gts": [_jobj(i, s, case["fg"]) for i, s in enumerate(case["gts"])],
           "buckets": [{"frames": b["frames"], "num_gt": b["num_gt"]} for b in out.get("buckets", [])]}
    return [req]


def _score_eq(impl, model):
    """a score the model calls undefined (`inf` / `nan`: a zero denominator) -- "whenever defined": the property says nothing
    about the value reported then, any value is accepted (the code itself says `inf` in one place and `nan` in another)"""
    if model in ("inf", "nan"):
        return True
    if isinstance(impl, str) or impl is None:
        return False
    return core.close(impl, core.unq(model))


def _acc_diff(name, a, m):
    for k in ("num_gt", "num", "tp", "fp"):
        if a[k] != m[k]:
            return f"{name}.{k}: impl {a[k]} != model {m[k]}"
    for k in ("accuracy", "precision", "recall", "f1"):
        if not _score_eq(a[k], m[k]):
            return f"{name}.{k}: impl {a[k]} != model {m[k]}"
    return None


def compare(case, out, resps):
    if out.get("unexpected"):
        return None
    if case.get("kind") == "manager":
        return _compare_manager(case, out, resps)
    r = resps[0]
    domain = case.get("domain", True)
    if "err" in out or "err" in r:
        # quantifier: "unique non-null uuids per side and camera".  Inside it: raised vs returned (the class is not the property's
        # business).  Outside it (null / duplicate uuids) the text says neither that nor how the input is refused: agreement is
        # recorded, any difference is a counted skip
        if out.get("where") == "scoring" and "err" not in r:
            return f"impl raised {out['err']} while scoring, model ok" if domain else "skip"
        if domain:
            return None if ("err" in out) == ("err" in r) else f"impl {out.get('err', 'ok')} != model {r.get('err', 'ok')}"
        return None if out.get("err") == r.get("err") else "skip"
    v = _pairs_verdict(case, case["ests"], case["gts"], out["pairs"], r["pairs"], case["task"])
    if v == "scores-open":
        return "skip"
    if v:
        return v if domain else "skip"
    d = _acc_diff("whole", out["whole"], r["whole"]) or _acc_diff("whole_nested", out["whole_nested"], r["whole"])
    if d:
        return d if domain else "skip"
    if "buckets" in out:
        if len(out["buckets"]) != len(r["buckets"]):
            return "bucket count differs"
        for b, m in zip(out["buckets"], r["buckets"]):
            sa = [a for a, l in zip(out["score_accs"], out["score_labels"]) if l == [b["label"]]]
            d = _acc_diff("bucket[" + b["label"] + "]", b["acc"], m) if b.get("acc") else None
            if not d and len(sa) == 1:
                d = _acc_diff("score.accuracies[" + b["label"] + "]", sa[0], m)
            if d:
                return d if domain else "skip"
        if out.get("summary") is not None:
            for k, a, m in zip(("accuracy", "precision", "recall", "f1"), out["summary"], r["summary"]):
                if not _score_eq(a, m):
                    return f"summary.{k}: impl {a} != model {m}" if domain else "skip"
    return None


# ----------------------------------------------------------------------------- oracle (independent of the model)

def _lab(case, side, spec):
    return (case["fe"] if side == "e" else case["fg"], spec[0])


def _max_equal_pairs(E, G):
    """maximum number of equally-labelled pairs over ALL one-to-one same-camera pairings (brute force).
    E, G: lists of (label, camera). Pairs with different labels add nothing, so only the others are searched."""
    n = len(E)
    best = 0

    def rec(i, used, cnt):
        nonlocal best
        if cnt + (n - i) <= best:
            return
        if i == n:
            best = max(best, cnt)
            return
        for j, g in enumerate(G):
            if j not in used and g == E[i]:
                rec(i + 1, used | {j}, cnt + 1)
        rec(i + 1, used, cnt)

    rec(0, frozenset(), 0)
    return best


def _class_sum(E, G):
    tot = 0
    for k in set(E):
        tot += min(E.count(k), G.count(k))
    return tot


FP_NAME = "false_positive"
MAX_TAG = "label-correct pairs not the largest possible under the pairing rule: "
N1 = "C11-N1"


def _rule_admits(uf, le_i, lg_j, e, g):
    """can the property's pairing rule for traffic lights form the pair (e, g)?  e, g = [label, camera, uuid].
    label-first: the label stage pairs EQUAL labels, the uuid stage EQUAL uuids (Lean: PEval.C11.RuleAdmissible);
    uuid-first: the first stage asks for equal label AND equal uuid, the second for equal uuid, so every pair shares
    the uuid.  Always within one camera."""
    if e[1] != g[1]:
        return False
    return e[2] == g[2] if uf else (le_i == lg_j or e[2] == g[2])


def _label_correct(le_i, lg_j):
    """is_label_correct of a pair: equal labels, or the ground truth carries the FP label (whatever the estimate says)"""
    return lg_j[1] == FP_NAME or le_i == lg_j


def _max_matching(n, adj):
    """size and one witness of a maximum matching of the bipartite graph adj[i] = [j...] (augmenting paths)"""
    owner = {}

    def aug(i, seen):
        for j in adj[i]:
            if j in seen:
                continue
            seen.add(j)
            if j not in owner or aug(owner[j], seen):
                owner[j] = i
                return True
        return False

    size = sum(1 for i in range(n) if aug(i, set()))
    return size, sorted((i, j) for j, i in owner.items())


def _max_brute(n, adj):
    """the same by definition: every one-to-one choice of edges is tried (small sets)"""
    best = [0, []]

    def rec(i, used, cur):
        if len(cur) + (n - i) <= best[0]:
            return
        if i == n:
            best[0], best[1] = len(cur), list(cur)
            return
        for j in adj[i]:
            if j not in used:
                cur.append((i, j))
                rec(i + 1, used | {j}, cur)
                cur.pop()
        rec(i + 1, used, cur)

    rec(0, frozenset(), [])
    return best[0], best[1]


def _max_label_correct(uf, E, G, le, lg, ie, ig):
    """THE maximum of the property: the largest number of label-correct pairs of any one-to-one pairing of the estimates
    `ie` with the ground truths `ig` (indices into E / G) every pair of which the rule admits.  A pair that is not
    label-correct adds nothing and only uses objects up, so the maximum is a maximum matching of the graph of pairs that
    are rule-admissible AND label-correct; small sets are searched exhaustively, larger ones by augmenting paths."""
    adj = [[b for b, j in enumerate(ig) if _rule_admits(uf, le[i], lg[j], E[i], G[j]) and _label_correct(le[i], lg[j])]
           for i in ie]
    size, wit = (_max_brute if len(ie) <= 4 and len(ig) <= 4 else _max_matching)(len(ie), adj)
    return size, [(ie[a], ig[b]) for a, b in wit]


def _two_stage(uf, E, G, le, lg, rev_e=False, rev_g=False):
    """the listed deviation of finding C11-N1 is 'the greedy two-stage pairing and nothing else': stage 1 walks the estimates
    and, for each, the ground truths (in list order; rev_e / rev_g: backwards) and pairs equal labels (uuid-first: and equal
    uuids) within a camera when both are still free; stage 2 does the same with equal uuids on what is left.  Used ONLY by
    the signature of the known finding (never by the oracle)."""
    fe, fg = set(range(len(E))), set(range(len(G)))
    res = []
    for stage in (1, 2):
        for i in sorted(fe, reverse=rev_e):
            for j in sorted(fg, reverse=rev_g):
                if i in fe and j in fg and E[i][1] == G[j][1] and \
                        ((le[i] == lg[j] and (not uf or E[i][2] == G[j][2])) if stage == 1 else E[i][2] == G[j][2]):
                    res.append([i, j])
                    fe.discard(i)
                    fg.discard(j)
    return res


def _frac_ratio(a, b):
    return None if b == 0 else Fraction(a, b)


def _chk_score(name, got, want, unit):
    """got: impl float or 'inf'/'nan'/None; want: Fraction or None (undefined).  "equal their counting definitions ..., lie in
    [0,1] WHENEVER DEFINED": for an undefined score (zero denominator) the property makes no statement about the value that
    is reported, so nothing is asserted then"""
    if want is None:
        return None
    if isinstance(got, str) or got is None:
        return f"{name}: expected {want}, got {got}"
    if not core.close(got, want):
        return f"{name}: expected {want}, got {got}"
    if unit and not (-1e-12 <= got <= 1 + 1e-12):
        return f"{name}: {got} outside [0,1]"
    return None


_RESULT_KEYS = {"accuracy": "acc", "precision": "prec", "recall": "rec", "f1": "f1"}


def _results_value(results, attr):
    """the entry of ClassificationAccuracy.results for a score: looked up by the beginning of the key, case-insensitively
    (`Accuracy`, `Precision`, `Recall`, `F1score` today); None when there is no such key (then nothing is asserted about it)"""
    pre = _RESULT_KEYS[attr]
    hits = [v for k, v in results.items() if k.lower().startswith(pre)]
    return hits[0] if len(hits) == 1 else None


def _chk_acc(name, a, tp, n, ngt, unit, k_fp=0):
    """one ClassificationAccuracy against the counting definitions over its pairs: n results, tp label-correct, ngt ground
    truths.  k_fp = number of those label-correct results whose ground truth carries the FP label and is therefore NOT among
    the ngt ground truths of a per-label bucket (observation O3 of DESIGN section 7, same root as known finding C11-N1: a pair
    with an FP-labelled ground truth is label-correct whatever the estimate says).  With k_fp > 0 two counting conventions are
    accepted: today's (ngt as handed in; the ONLY place where a value outside [0,1] is tolerated, and only when tp > ngt, i.e.
    exactly the listed deviation) and the repaired one (those ground truths counted: ngt + k_fp), which must lie in [0,1]."""
    if a["tp"] != tp or a["fp"] != n - tp or a["num"] != n:
        return f"{name}: counts (tp,fp,n)=({a['tp']},{a['fp']},{a['num']}) expected ({tp},{n - tp},{n})"
    cands = [(ngt, unit and not (k_fp > 0 and tp > ngt))]
    if k_fp > 0:
        cands.append((ngt + k_fp, unit))
    first = None
    for g, u in cands:
        d = None
        if a["num_gt"] != g:
            d = f"{name}: num_ground_truth is {a['num_gt']}, expected {g}"
        p, r = _frac_ratio(tp, n), _frac_ratio(tp, g)
        f1 = None if (p is None or r is None or p + r == 0) else 2 * p * r / (p + r)
        for k, want in (("accuracy", _frac_ratio(tp, n + g - tp)), ("precision", p), ("recall", r), ("f1", f1)):
            d = d or _chk_score(f"{name}.{k}", a[k], want, u)
        if d is None:
            if g == ngt and k_fp > 0 and tp > ngt:
                _note("oracle:O3-range-exemption-used")
            elif g != ngt:
                _note("oracle:O3-repaired-convention-accepted")
            break
        first = first or d
    else:
        return first
    # ClassificationAccuracy.results (observe_at) repeats the attributes
    for k in ("accuracy", "precision", "recall", "f1"):
        v = _results_value(a["results"], k)
        if v is not None and v != a[k]:
            return f"{name}.results[{k}] = {v} differs from the attribute {a[k]}"
    nums = [v for kk, v in a["results"].items() if "num" in kk.lower()]
    if len(nums) == 1 and nums[0] != n:
        return f"{name}.results[predict_num] = {nums[0]} != {n}"
    return None


def _label_counts(case, E, G, pairs, flags, with_gt_routing):
    """per target label L: [results counted, label-correct among them, of those with an FP-labelled ground truth] --
    results whose ESTIMATE carries L; with_gt_routing: also the results whose estimate label is no target and whose ground
    truth carries L (today's code).  The property does not say under which label, if any, a result with a non-target
    estimate label is scored: both conventions are accepted (one per case), see _chk_per_label."""
    T = [(case["fe"], t) for t in case["targets"]]
    Tset = set(T)
    per = {t: [0, 0, 0] for t in T}
    for (i, j), ok in zip(pairs, flags):
        le = _lab(case, "e", E[i])
        b = le if le in Tset else None
        if b is None and with_gt_routing and j is not None and _lab(case, "g", G[j]) in Tset:
            b = _lab(case, "g", G[j])
        if b is not None:
            per[b][0] += 1
            per[b][1] += int(ok)
            per[b][2] += int(ok and j is not None and G[j][0] == FP_NAME and _lab(case, "g", G[j]) != b)
    return T, per


def _chk_per_label(name, case, E, G, pairs, flags, accs_by_label, summary, unit=True, extra=None):
    """per-label accuracies and their summary == counting definitions over the pairs.  accs_by_label: {label value: acc dict}
    (looked up by the accuracy's own target_labels; a target label without exactly one accuracy is not judged).
    extra: {label: [n, tp, k_fp, ngt]} counts of earlier frames to add (scene level)."""
    lg = [_lab(case, "g", s) for s in G]
    first = None
    for routing in (True, False):
        T, per = _label_counts(case, E, G, pairs, flags, routing)
        d = None
        S = [0, 0, 0, 0]
        for t in T:
            n, tp, kfp = per[t]
            ngt = sum(1 for x in lg if x == t)
            if extra:
                n, tp, kfp, ngt = n + extra[t[1]][routing][0], tp + extra[t[1]][routing][1], kfp + extra[t[1]][routing][2], ngt + extra[t[1]][routing][3]
            a = accs_by_label.get(t[1])
            if a is not None:
                d = d or _chk_acc(f"{name}.accuracies[{t[1]}]", a, tp, n, ngt, unit, kfp)
            S[0] += n; S[1] += ngt; S[2] += tp; S[3] += kfp
        if d is None and summary is not None:
            for g, u in [(S[1], unit and not (S[3] > 0 and S[2] > S[1]))] + ([(S[1] + S[3], unit)] if S[3] else []):
                p, r = _frac_ratio(S[2], S[0]), _frac_ratio(S[2], g)
                f1 = None if (p is None or r is None or p + r == 0) else 2 * p * r / (p + r)
                d = None
                for k, got, want in zip(("accuracy", "precision", "recall", "f1"), summary, (_frac_ratio(S[2], S[0] + g - S[2]), p, r, f1)):
                    d = d or _chk_score(f"{name}.summary.{k}", got, want, u)
                if d is None:
                    break
        if d is None:
            return None
        first = first or d
    return first


def _by_label(labels, accs):
    """{label value: accuracy} for the accuracies that are for exactly one label and the only one for it"""
    seen = {}
    for lab, a in zip(labels or [], accs or []):
        if len(lab) == 1:
            seen.setdefault(lab[0], []).append(a)
    return {k: v[0] for k, v in seen.items() if len(v) == 1}


def _oracle_manager(case, out, short=None):
    """the property evaluated on what the manager holds: frame_result.object_results of every frame (pairing statement on the
    objects the manager evaluates: those with a target label and those with the FP label), the classification scores of every
    frame and of the scene (counting definitions over the pairs, per label and summarised; in [0,1] when defined -- except the
    exact deviation O3, see _chk_acc; all 1 for a perfect frame / scene)"""
    if "err" in out:
        return f"the manager raised {out['err']} in {out.get('where')} on unique non-null uuids"
    fam = case["fam"]
    c2 = {"fe": fam, "fg": fam, "uf": case["uf"], "targets": case["targets"]}
    T = list(case["targets"])
    extra = {t: {True: [0, 0, 0, 0], False: [0, 0, 0, 0]} for t in T}
    all_perfect = True
    for k, (fr, fo) in enumerate(zip(case["frames"], out["frames"])):
        ke, kg = _kept(case, fr["ests"]), _kept(case, fr["gts"])
        E, G = [fr["ests"][i] for i in ke], [fr["gts"][j] for j in kg]
        pe, pg = {i: a for a, i in enumerate(ke)}, {j: a for a, j in enumerate(kg)}
        for i, j in fo["pairs"]:
            if i not in pe or (j is not None and j not in pg):
                return f"frame {k}: result ({i},{j}) uses an object that is not among the frame's objects with a target label"
        pairs = [[pe[i], None if j is None else pg[j]] for i, j in fo["pairs"]]
        d = _oracle_pairing(c2, E, G, pairs, short, where=f"frame {k}, ")
        if d:
            return f"frame {k}: {d}"
        le, lg = [s[0] for s in E], [s[0] for s in G]
        fp_gt = FP_NAME in lg
        flags = [j is not None and (lg[j] == FP_NAME or le[i] == lg[j]) for i, j in pairs]
        if flags != fo["correct"]:
            return f"frame {k}: is_label_correct {fo['correct']} expected {flags}"
        if not fo.get("n_scores"):
            return f"frame {k}: no classification score although the task is classification"
        d = _chk_per_label(f"frame {k}", c2, E, G, pairs, flags, _by_label(fo.get("labels"), fo.get("accs")), fo.get("summary"))
        if d:
            return d
        perfect = len(G) > 0 and len(pairs) == len(G) and all(j is not None and le[i] == lg[j] for i, j in pairs) and not fp_gt
        all_perfect = all_perfect and (perfect or (not E and not G))
        # "... are all 1 when every ground truth is paired with an equally-labelled estimate and nothing else is reported"
        if perfect and fo.get("summary") is not None and fo["summary"] != [1.0, 1.0, 1.0, 1.0]:
            return f"frame {k}: every ground truth paired with an equally-labelled estimate, nothing else reported, but summary = {fo['summary']}"
        for routing in (True, False):
            _, per = _label_counts(c2, E, G, pairs, flags, routing)
            for t in T:
                x = extra[t][routing]
                x[0] += per[(fam, t)][0]; x[1] += per[(fam, t)][1]; x[2] += per[(fam, t)][2]
                x[3] += sum(1 for g in lg if g == t)
    sc = out["scene"]
    if not sc.get("n_scores"):
        return "scene: no classification score although the task is classification"
    d = _chk_per_label("scene", c2, [], [], [], [], _by_label(sc.get("labels"), sc.get("accs")), sc.get("summary"), extra=extra)
    if d:
        return d
    total_gt = sum(extra[t][True][3] for t in T)
    if all_perfect and total_gt > 0:
        if sc.get("summary") is not None and sc["summary"] != [1.0, 1.0, 1.0, 1.0]:
            return f"every frame perfect but the scene summary = {sc['summary']}"
        for t, a in _by_label(sc.get("labels"), sc.get("accs")).items():
            if t in extra and extra[t][True][3] > 0 and [a[x] for x in ("accuracy", "precision", "recall", "f1")] != [1.0] * 4:
                return f"every frame perfect but the scene scores of {t} are {a}"
    return None


def oracle(case, out):
    """every clause of the property; a failure of the maximality clause alone is reported last (MAX_TAG), any other failing
    clause first -- so a MAX_TAG failure means: everything else holds"""
    if out.get("unexpected"):  # run_check reports these itself; kept total for older runners
        return f"the real code raised {out.get('err')} unexpectedly"
    other, short = _check(case, out)
    if other:
        return other
    if short:
        return MAX_TAG + "; ".join(s["msg"] for s in short[:3])
    return None


def known_finding(case, out, failure):
    """C11-N1 (label-first traffic-light pairing, ground truth with the FP label): a pair with an FP-labelled ground truth
    is label-correct whatever the estimate says, but the label stage pairs EQUAL labels only, greedily in list order, so an
    estimate that shares the uuid of an FP-labelled ground truth may be spent on an equally-labelled ground truth that another
    estimate could have taken.  Signature (Lean: tlr_tp_exact, tlr_tp_maximum, tlr_tp_maximum_up_to_fp): ONLY the maximality
    clause fails; label-first mode; in every camera (and frame) where it fails there is an FP-labelled ground truth and the
    shortfall is at most their number; and the results are the greedy two-stage pairing -- compared as a SET of pairs (the
    property does not order the results) against the greedy pairing for each of the four scan orders (estimates / ground truths
    forwards or backwards: which of several equally-labelled candidates is taken first is a tie the property leaves open)."""
    if not isinstance(failure, str) or not failure.startswith(MAX_TAG) or out.get("unexpected"):
        return None
    other, short = _check(case, out)
    if other or not short:
        return None
    for s in short:
        if s["uf"] or s["fp_gts"] < 1 or not (0 < s["max"] - s["got"] <= s["fp_gts"]):
            return None
        # the PAIRED results (whether the traffic-light path also reports its unpaired estimates is left open, _fp_tail_stated)
        if _spairs([p for p in s["pairs"] if p[1] is not None]) not in s["expected_by_signature"]:
            return None
    return N1


def _check(case, out):
    """-> (first failure of any clause other than maximality | None, [maximality shortfalls])"""
    short = []
    return _oracle_rest(case, out, short), short


def _oracle_rest(case, out, short):
    if case.get("kind") == "manager":
        return _oracle_manager(case, out, short)
    if case.get("kind") == "divide":
        E, G, link = _div_specs(case)
        c2 = {"fe": case["fam"], "fg": case["fam"], "targets": case["targets"]}
        if "err" in out:
            return f"raised {out['err']} while scoring a well-formed result list"
        return _oracle_scores(c2, E, G, out, whole=False)
    if not case.get("domain", True):
        return None  # quantifier: "unique non-null uuids per side and camera"
    E, G = case["ests"], case["gts"]
    if "err" in out and out.get("where") != "scoring":
        return f"raised {out['err']} on unique non-null uuids"
    d = _oracle_pairing(case, E, G, out["pairs"], short, task=case["task"])
    if d:
        return d
    if "err" in out:
        return f"raised {out['err']} while scoring the results of unique non-null uuids"
    return _oracle_scores(case, E, G, out)


def _fp_tail_stated(case, E, G, task, P):
    """what the documentation states about the UNPAIRED estimates of this input (P: the paired (i, j)):
      "all"  every unpaired estimate is reported as a result without ground truth -- docstring of get_object_results: "In case
             of FP validation, estimated objects, which have no matching GT, will be ignored. Otherwise, they all are FP.";
             holds today when there is no ground truth at all, and on the generic (uuid) path
      "none" no such result: FP validation without any ground truth
      None   the text and the code part ways or are silent, nothing is asserted: the traffic-light path (the code drops the
             unpaired estimates), the generic path when an unpaired estimate is on CAM_TRAFFIC_LIGHT (the code then drops the
             whole tail), FP validation with ground truths (the id-based paths do not look at the task)"""
    if not E:
        return None
    fpv = str(task).startswith("fp_validation")
    if not G:
        return "none" if fpv else "all"
    if fpv or case["fe"] == "tl":
        return None
    paired = {i for i, _ in P}
    if any(E[i][1] == "cam_traffic_light" for i in range(len(E)) if i not in paired):
        return None
    return "all"


def _oracle_pairing(case, E, G, pairs, short=None, where="", task="classification2d"):
    """THE pairing statement of the property on one pair of lists (case gives the label families and uuid-first setting):
    same camera, every object at most once, generic: paired iff same uuid (and camera), traffic lights: label stage
    then uuid stage (the label stage first: as many equally-labelled pairs as any one-to-one same-camera pairing has),
    and the number of LABEL-CORRECT pairs the largest possible over the one-to-one pairings the rule admits.
    `short` (a list): a shortfall of that last clause is recorded there, per camera, instead of being returned, so that the
    caller can evaluate every other clause too (the signature of finding C11-N1 needs 'nothing else fails')."""
    for i, j in pairs:
        if not (0 <= i < len(E)) or (j is not None and not (0 <= j < len(G))):
            return f"a result refers to an object that is not among the inputs: {pairs}"
    P = [(i, j) for i, j in pairs if j is not None]
    Fp = [i for i, j in pairs if j is None]
    es = [i for i, _ in pairs]
    gs = [j for _, j in P]
    # "each object is used at most once"
    if len(set(es)) != len(es):
        return f"an estimate appears in two results: {pairs}"
    if len(set(gs)) != len(gs):
        return f"a ground truth appears in two results: {pairs}"
    for i, j in P:
        if E[i][1] != G[j][1]:
            return f"pair ({i},{j}) crosses cameras {E[i][1]} / {G[j][1]}"
    same_uuid = {(i, j) for i in range(len(E)) for j in range(len(G)) if E[i][2] == G[j][2] and E[i][1] == G[j][1]}
    le = [_lab(case, "e", s) for s in E]
    lg = [_lab(case, "g", s) for s in G]
    tlr = bool(E) and bool(G) and case["fe"] == "tl"
    if E and G and (not tlr or case["uf"]):
        if set(P) != same_uuid:
            return f"paired {sorted(P)} but same-uuid-same-camera pairs are {sorted(same_uuid)}"
    if tlr and not case["uf"]:
        ue = set(range(len(E))) - {i for i, _ in P}
        ug = set(range(len(G))) - set(gs)
        for i, j in P:
            if le[i] != lg[j] and (i, j) not in same_uuid:
                return f"pair ({i},{j}) agrees neither in label nor in uuid"
        for i in ue:
            for j in ug:
                if E[i][1] == G[j][1] and le[i] == lg[j]:
                    return f"unused equally-labelled same-camera pair ({i},{j}) remains"
                if (i, j) in same_uuid:
                    return f"unused same-uuid same-camera pair ({i},{j}) remains"
        got = sum(1 for i, j in P if le[i] == lg[j])
        ke = [(le[i], E[i][1]) for i in range(len(E))]
        kg = [(lg[j], G[j][1]) for j in range(len(G))]
        best = _max_equal_pairs(ke, kg) if len(E) <= 6 and len(G) <= 6 else _class_sum(ke, kg)
        if got != best:
            return f"{got} equally-labelled pairs, but a one-to-one same-camera pairing with {best} exists"
    # the unpaired estimates: reported as results without ground truth exactly where the documentation says so ("nothing else
    # is reported" presupposes that what IS reported is tied to the input, not only to the output)
    stated = _fp_tail_stated(case, E, G, task, P)
    unpaired = sorted(set(range(len(E))) - {i for i, _ in P})
    if stated == "all" and sorted(Fp) != unpaired:
        return (f"estimates {unpaired} have no ground truth of their uuid and camera, but the results without ground truth are for "
                f"{sorted(Fp)} (get_object_results: unpaired estimates 'all are FP')")
    if stated == "none" and Fp:
        return f"FP validation without ground truths reports results {pairs} (unpaired estimates 'will be ignored')"
    if tlr:
        # "... so that the number of label-correct pairs is the largest possible under that rule" -- the count the metrics use
        # (is_label_correct: equal labels, or an FP-labelled ground truth), against every one-to-one pairing whose pairs the
        # rule can form.  Pairs never cross cameras, so the maximum is taken camera by camera.
        for cam in sorted({s[1] for s in E} & {s[1] for s in G}):
            ie = [i for i, s in enumerate(E) if s[1] == cam]
            ig = [j for j, s in enumerate(G) if s[1] == cam]
            got = sum(1 for i, j in P if E[i][1] == cam and _label_correct(le[i], lg[j]))
            best, wit = _max_label_correct(case["uf"], E, G, le, lg, ie, ig)
            if got > best:
                return f"{where}camera {cam}: {got} label-correct pairs reported, more than any pairing the rule admits ({best})"
            if got < best:
                nfp = sum(1 for j in ig if lg[j][1] == FP_NAME)
                msg = (f"{where}camera {cam}: {got} label-correct pair(s) reported (results {pairs}), but the one-to-one pairing "
                       f"{wit} -- every pair with equal {'uuid' if case['uf'] else 'label or equal uuid'}, same camera -- has {best}; "
                       f"{nfp} ground truth(s) of that camera carry the FP label")
                if short is None:
                    return MAX_TAG + msg
                short.append({"msg": msg, "uf": bool(case["uf"]), "got": got, "max": best, "fp_gts": nfp,
                              "pairs": [list(p) for p in pairs],
                              "expected_by_signature": [_spairs(_two_stage(case["uf"], E, G, le, lg, re_, rg_))
                                                        for re_ in (False, True) for rg_ in (False, True)]})
    return None


def _oracle_scores(case, E, G, out, whole=True):
    # ---- scores: counting definitions over the results, recomputed in Fractions
    pairs = out["pairs"]
    le = [_lab(case, "e", s) for s in E]
    lg = [_lab(case, "g", s) for s in G]

    def correct(i, j):
        return j is not None and (G[j][0] == "false_positive" or le[i] == lg[j])

    flags = [correct(i, j) for i, j in pairs]
    if "correct" in out and flags != out["correct"]:
        return f"is_label_correct {out['correct']} expected {flags}"
    tp = sum(flags)
    if whole:
        d = _chk_acc("whole", out["whole"], tp, len(pairs), len(G), True)
        if not d and "whole_nested" in out:
            d = _chk_acc("whole (per-frame nesting)", out["whole_nested"], tp, len(pairs), len(G), True)
        if d:
            return d
    # "... and are all 1 when every ground truth is paired with an equally-labelled estimate and nothing else is reported"
    all_right = len(G) > 0 and len(pairs) == len(G) and all(j is not None and le[i] == lg[j] for i, j in pairs)
    if all_right and whole:
        for k in ("accuracy", "precision", "recall", "f1"):
            if out["whole"][k] != 1.0:
                return f"everything paired and right but whole.{k} = {out['whole'][k]}"
    if "label_counts" in out and out["label_counts"] != out.get("label_counts_reversed"):
        # "equal their counting definitions over the pairs": a count over a set of pairs cannot depend on the order in which the
        # pairs happen to be listed
        return (f"per-label counts [results, label-correct] {out['label_counts']} for targets {case['targets']}, but "
                f"{out['label_counts_reversed']} when the same results are listed in reverse order")
    if "buckets" in out:
        accs = _by_label(out.get("score_labels"), out.get("score_accs"))
        d = _chk_per_label("score", case, E, G, pairs, flags, accs, out.get("summary"))
        if d:
            return d
        if any(b.get("acc") is not None and b["acc"] is not accs.get(b["label"]) for b in out["buckets"]):
            # a ClassificationAccuracy built directly from the bucket (next to the one inside ClassificationMetricsScore)
            d = _chk_per_label("bucket", case, E, G, pairs, flags, {b["label"]: b["acc"] for b in out["buckets"] if b.get("acc")}, None)
            if d:
                return d
        labels_used = {s[0] for s in E} | {s[0] for s in G}
        if all_right and case["fe"] == case["fg"] and labels_used <= set(case["targets"]):
            if out.get("summary") is not None and out["summary"] != [1.0, 1.0, 1.0, 1.0]:
                return f"everything paired and right but summary = {out['summary']}"
    return None


# ----------------------------------------------------------------------------- bookkeeping

def _bucket_branches(case, E, G, out):
    """which routes of the per-label bucketing a case takes (from the case and the result list only)"""
    br = []
    fe = case["fe"]
    T = {(fe, t) for t in case["targets"]}
    labs = {_lab(case, "e", s) for s in E} | {_lab(case, "g", s) for s in G}
    br.append("targets:exclude-a-used-label" if labs - T else "targets:cover-all-used-labels")
    keys = set()  # non-target keys created so far
    routes = set()
    for i, j in out["pairs"]:
        le = _lab(case, "e", E[i])
        lg = None if j is None else _lab(case, "g", G[j])
        if le in T:
            routes.add("bucket:by-est-label")
        elif lg is None:
            routes.add("bucket:dropped(no-target-est,no-gt)")
        elif lg in T:
            routes.add("bucket:by-gt-label")
            if le in keys:
                routes.add("bucket:by-gt-label-after-nontarget-key-equal-to-est-label")
        else:
            routes.add("bucket:nontarget-key")
            keys.add(lg)
    return br + sorted(routes)


def branches(case, out):
    return _branches0(case, out) + _table_branches() + (["table:witness"] if case.get("table_witness") else [])


def _branches_manager(case, out):
    br = ["kind:manager", f"manager:frames:{len(case['frames'])}", f"manager:targets:{len(case['targets'])}",
          f"manager:path:{'tlr:uf=%d' % case['uf'] if case['fam'] == 'tl' else 'generic'}", f"manager:cameras:{len(case['cams'])}"]
    if "err" in out:
        return br + ["manager:err:" + out["err"]]
    T = set(case["targets"])
    if any(o[0] not in T for fr in case["frames"] for o in fr["ests"] + fr["gts"]):
        br.append("manager:objects-outside-targets")
    if any(o[0] == "false_positive" for fr in case["frames"] for o in fr["gts"]):
        br.append("manager:fp-labelled-gt")
    for fr, fo in zip(case["frames"], out["frames"]):
        e, g = bool(_kept(case, fr["ests"])), bool(_kept(case, fr["gts"]))
        br.append("manager:frame:" + ("both" if e and g else "no-est" if g else "no-gt" if e else "empty"))
        if any(j is None for _, j in fo["pairs"]):
            br.append("manager:frame:fp-result")
        if fo["pairs"] and not all(fo["correct"]):
            br.append("manager:frame:wrong-label-pair")
        v = (fo.get("summary") or [None] * 4)[3]
        br.append("manager:frame.f1:" + ("unobservable" if v is None else v if isinstance(v, str) else "1" if v == 1.0 else "0" if v == 0.0 else "frac"))
    if not any(_kept(case, fr["ests"]) and _kept(case, fr["gts"]) for fr in case["frames"]):
        br.append("trivial")
    v = out["scene"].get("summary")
    if v is None:
        br.append("unobservable:ClassificationMetricsScore._summarize")
    else:
        br.append("manager:scene.f1:" + (v[3] if isinstance(v[3], str) else "1" if v[3] == 1.0 else "0" if v[3] == 0.0 else "frac"))
        br.append("manager:scene.accuracy:" + (v[0] if isinstance(v[0], str) else "1" if v[0] == 1.0 else "0" if v[0] == 0.0 else "frac"))
    return sorted(set(br))


def _branches0(case, out):
    if case.get("kind") == "manager":
        return _branches_manager(case, out)
    if case.get("kind") == "divide":
        E, G, _ = _div_specs(case)
        br = ["kind:divide", f"divide:size:{len(E)}", f"divide:targets:{len(case['targets'])}"]
        if case.get("xg"):
            br.append("divide:unpaired-gts")
        if "err" in out:
            return br + ["err:" + out["err"]]
        br += _bucket_branches({"fe": case["fam"], "fg": case["fam"], "targets": case["targets"]}, E, G, out)
        if out.get("summary") is not None:
            v = out["summary"][3]
            br.append("summary.f1:" + (v if isinstance(v, str) else "num"))
        elif "summary" in out:
            br.append("unobservable:ClassificationMetricsScore._summarize")
        else:
            br.append("divide:buckets-only")
        return br
    E, G = case["ests"], case["gts"]
    br = []
    if not E or not G:
        br.append("trivial")
        br.append("empty:" + ("both" if not E and not G else "est" if not E else "gt") + ":" + case["task"])
    path = "tlr" if case["fe"] == "tl" else "generic"
    br.append(f"path:{path}:uf={int(case['uf'])}" if path == "tlr" else "path:generic")
    br.append(f"size:{len(E)}+{len(G)}")
    if case["fe"] != case["fg"]:
        br.append("mixed-families")
    if not case.get("domain", True):
        br.append("malformed")
    if "err" in out:
        br.append("err:" + out["err"])
        return br
    P = [(i, j) for i, j in out["pairs"] if j is not None]
    n_fp = len(out["pairs"]) - len(P)
    if E and G:
        le = [_lab(case, "e", s) for s in E]
        lg = [_lab(case, "g", s) for s in G]
        s1 = sum(1 for i, j in P if le[i] == lg[j])
        if path == "tlr":
            br.append("tlr:label-pairs>0" if s1 else "tlr:label-pairs=0")
            br.append("tlr:uuid-only-pairs>0" if len(P) - s1 else "tlr:uuid-only-pairs=0")
            if any(le[i] == lg[j] and E[i][2] != G[j][2] for i, j in P):
                br.append("tlr:label-pair-with-different-uuid")
        else:
            left = set(range(len(E))) - {i for i, _ in P}
            if left:
                br.append("generic:fp-tail" if n_fp else "generic:fp-tail-suppressed(CAM_TRAFFIC_LIGHT)")
            else:
                br.append("generic:no-leftover")
        br.append("cameras:" + str(len({s[1] for s in E + G})))
        if len(P) < min(len(E), len(G)):
            br.append("unpaired-on-both-sides")
    if any(s[0] == "false_positive" for s in G):
        br.append("fp-labelled-gt")
    for k in ("accuracy", "precision", "recall", "f1"):
        v = out["whole"][k]
        br.append(f"whole.{k}:" + (v if isinstance(v, str) else "1" if v == 1.0 else "0" if v == 0.0 else "frac"))
    if "buckets" in out:
        if out.get("summary") is not None:
            v = out["summary"][3]
            br.append("summary.f1:" + (v if isinstance(v, str) else "num"))
        else:
            br.append("unobservable:ClassificationMetricsScore._summarize")
        br += ["pair:" + b for b in _bucket_branches(case, E, G, out)]
    return br


def shrink(case):
    if case.get("kind") == "manager":
        fs = case["frames"]
        for k in range(len(fs)):
            if len(fs) > 1:
                c = dict(case); c["frames"] = fs[:k] + fs[k + 1:]
                yield c
        for k in range(len(fs)):
            for side in ("ests", "gts"):
                for i in range(len(fs[k][side])):
                    f2 = dict(fs[k]); f2[side] = fs[k][side][:i] + fs[k][side][i + 1:]
                    c = dict(case); c["frames"] = fs[:k] + [f2] + fs[k + 1:]
                    yield c
        return
    if case.get("kind") == "divide":
        rs = case["rs"]
        for i in range(len(rs)):
            c = dict(case); c["rs"] = rs[:i] + rs[i + 1:]
            yield c
        for i in range(len(case.get("xg", []))):
            c = dict(case); c["xg"] = case["xg"][:i] + case["xg"][i + 1:]
            yield c
        if len(case["targets"]) > 1:
            for i in range(len(case["targets"])):
                c = dict(case); c["targets"] = case["targets"][:i] + case["targets"][i + 1:]
                yield c
        if case.get("split"):
            c = dict(case); c["split"] = 0
            yield c
        return
    E, G = case["ests"], case["gts"]
    for i in range(len(E)):
        c = dict(case); c["ests"] = E[:i] + E[i + 1:]
        yield c
    for j in range(len(G)):
        c = dict(case); c["gts"] = G[:j] + G[j + 1:]
        yield c
    if case.get("split"):
        c = dict(case); c["split"] = 0
        yield c
    if case["task"] != "classification2d":
        c = dict(case); c["task"] = "classification2d"
        yield c
    # permuted order (neighbourhood of a diverging case)
    if len(E) > 1:
        c = dict(case); c["ests"] = E[1:] + E[:1]
        yield c
    if len(G) > 1:
        c = dict(case); c["gts"] = G[1:] + G[:1]
        yield c


def search(rng, st, disagreements):
    cases = table_witness_cases()
    for _ in range(6000):
        cases.append(_random_case(rng, 6))
    for _ in range(6000):
        cases.append(_random_divide(rng, 6))
    for i in range(3000):
        cases.append(_random_scene(rng, perfect=(i % 8 == 0)))
    return cases
