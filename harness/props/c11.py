"""C11 — classification pairs objects by identity and scores them by label agreement.

Tie to the code: REAL ROI-less `DynamicObject2D` lists go through the real `get_object_results`,
`ClassificationAccuracy`, `divide_objects(_to_num)` and `ClassificationMetricsScore._summarize`; the same
lists go to the Lean model (`PEval.Model.Classification`), pairs are compared by harness id in order,
counts exactly, scores within 1e-9 (inf / nan exactly).

The oracle is independent of the model: pairing rules re-derived from uuids / labels / cameras, one-to-one
use, the maximum number of equally-labelled pairs by brute force over all one-to-one same-camera pairings,
metric formulas recomputed in Fractions and their ranges.
"""
from __future__ import annotations

import itertools
import math
from fractions import Fraction

from .. import core

PROP = "C11"
EXHAUSTIVE = True  # label assignments x layouts listed in RULE; layouts and the larger sets are sampled
RULE = (
    "exhaustive: every label assignment over 3 labels for every (n_est, n_gt) <= 3+3 (quick) / 4+4 (thorough, capped "
    "to the time budget) x fixed+seeded camera/uuid layouts (2 cameras, uuids unique per side and camera) x "
    "{TrafficLightLabel with uuid_matching_first in {False, True}, AutowareLabel}; one sweep with the FP label among "
    "the three; seeded random sets up to 9+9 with 5 labels, 4 camera frames (incl. CAM_TRAFFIC_LIGHT), both tasks, "
    "random target-label lists, mixed label families; a malformed stream (null uuids, duplicate uuids per camera). "
    "non-trivial = both lists non-empty; distinct = distinct canonical case"
)
THEOREMS = [
    "PEval.C11." + t
    for t in [
        "pair_same_camera", "pair_members", "pair_used_once", "generic_total", "generic_pair_iff_same_uuid",
        "generic_fp_tail", "generic_null_uuid_error", "tlr_total", "tlr_null_uuid_error", "tlr_result_split", "tlr_stage1_maximal",
        "tlr_stage1_class_count", "tlr_stage2_pairs_by_uuid", "tlr_stage2_pairs_incorrect",
        "tlr_uuid_first_iff_same_uuid", "tlr_correct_pairs_maximum", "tp_le_num_gt", "metrics_def",
        "metrics_in_unit", "metrics_in_unit_results", "metrics_all_one", "metrics_all_one_results",
        "summarize_def", "summarize_in_unit", "summarize_all_one",
    ]
]
TRUSTED = [
    "DynamicObject2D has no __eq__/__hash__: `in` and list.remove work by identity; the model uses the harness id",
    "divide_objects / divide_objects_to_num (objects_filter.py) are used by the harness to build the per-label buckets "
    "exactly as MetricsScoreManager does; they are inputs of the model, not modelled here",
]
ASSUMPTIONS = [
    "objects are ROI-less DynamicObject2D, distinct Python objects; uuids non-null and unique per side and camera "
    "(the property's domain) for the oracle; null / duplicate uuids are compared with the model only (error kinds)",
    "the [0,1] range of per-label buckets is asserted only when no ground truth carries the FP label: "
    "ClassificationAccuracy takes num_ground_truth from its caller and an FP-labelled ground truth makes every paired "
    "estimate label-correct without being counted in the estimate's label bucket (see report: recall 2.0)",
    "the maximum-count statement concerns pairs with EQUAL labels (stage-1 rule); uuid_matching_first=False",
]

TL = ["green", "red", "yellow", "unknown", "false_positive"]
AW = ["car", "bus", "pedestrian", "unknown", "false_positive"]
CAMS = ["cam_front", "cam_back", "cam_traffic_light", "cam_traffic_light_near"]
UU = ["a", "b", "c", "d", "e", "f", "g", "h", "i", "j", "k", "l"]

_C = {}


def _mods():
    if not _C:
        from perception_eval.common.evaluation_task import EvaluationTask
        from perception_eval.common.label import AutowareLabel, Label, TrafficLightLabel
        from perception_eval.common.object2d import DynamicObject2D
        from perception_eval.common.schema import FrameID
        from perception_eval.evaluation.matching.objects_filter import divide_objects, divide_objects_to_num
        from perception_eval.evaluation.metrics.classification.accuracy import ClassificationAccuracy
        from perception_eval.evaluation.metrics.classification.classification_metrics_score import (
            ClassificationMetricsScore,
        )
        from perception_eval.evaluation.result.object_result import get_object_results

        _C.update(locals())
        _C["lab"] = {
            "tl": {m.value: m for m in TrafficLightLabel.__members__.values()},
            "aw": {m.value: m for m in AutowareLabel.__members__.values()},
        }
        _C["frame"] = {m.value: m for m in FrameID.__members__.values()}
        _C["task"] = {m.value: m for m in EvaluationTask.__members__.values()}
    return _C


# ----------------------------------------------------------------------------- cases
# object = [label, frame, uuid|None] ; family per side ("fe", "fg")

def _case(fam, uf, ests, gts, targets=None, task="classification2d", fg=None, split=0, domain=True):
    return {"kind": "pair", "fe": fam, "fg": fg or fam, "task": task, "uf": bool(uf), "ests": ests, "gts": gts,
            "targets": list(targets) if targets is not None else None, "split": split, "domain": domain}


def _layouts(ne, ng, rng, n_random):
    """camera / uuid layouts: (cams_e, uu_e, cams_g, uu_g) with uuids unique per side and camera"""
    out = []
    c0, c1 = CAMS[0], CAMS[1]
    ue, ug = UU[:ne], UU[:ng]
    out.append(([c0] * ne, ue, [c0] * ng, ug))  # one camera, uuids aligned
    out.append(([c0] * ne, ue, [c0] * ng, list(reversed(UU[1:ng + 1]))))  # shifted + reversed: partly disjoint
    # two cameras, the same uuid reused across cameras
    ce = [c0, c1, c0, c1][:ne]
    cg = [c0, c0, c1, c1][:ng]
    out.append((ce, ["a", "a", "b", "b"][:ne], cg, ["a", "b", "a", "b"][:ng]))
    for _ in range(n_random):
        cams = rng.sample(CAMS, 2)
        def side(n):
            cs = [rng.choice(cams) for _ in range(n)]
            used = {}
            us = []
            for c in cs:
                pool = [u for u in UU[: max(ne, ng) + 1] if u not in used.setdefault(c, set())]
                u = rng.choice(pool)
                used[c].add(u)
                us.append(u)
            return cs, us
        ce, ue_ = side(ne)
        cg, ug_ = side(ng)
        out.append((ce, ue_, cg, ug_))
    # drop duplicates
    seen, res = set(), []
    for l in out:
        k = repr(l)
        if k not in seen:
            seen.add(k)
            res.append(l)
    return res


def _sweep(rng, nmax, labels, fam, ufs, n_random, cap=None):
    cases = []
    for ne in range(nmax + 1):
        for ng in range(nmax + 1):
            lays = _layouts(ne, ng, rng, n_random if ne + ng > 0 else 0)
            for (ce, ue, cg, ug) in lays:
                for labs in itertools.product(labels, repeat=ne + ng):
                    ests = [[labs[i], ce[i], ue[i]] for i in range(ne)]
                    gts = [[labs[ne + j], cg[j], ug[j]] for j in range(ng)]
                    for uf in ufs:
                        cases.append(_case(fam, uf, ests, gts, targets=labels, split=(ne + ng) % 3))
    if cap is not None and len(cases) > cap:
        # keep every size; thin out uniformly (thorough tier budget)
        step = len(cases) / cap
        cases = [cases[int(i * step)] for i in range(cap)]
    return cases


def _random_case(rng, nmax, malformed=False):
    fam = rng.choice(["tl", "tl", "aw"])
    fg = fam if rng.random() < 0.93 else ("aw" if fam == "tl" else "tl")
    pool_e = TL if fam == "tl" else AW
    pool_g = TL if fg == "tl" else AW
    k = rng.randint(2, 5)
    le = rng.sample(pool_e, min(k, len(pool_e)))
    lg = le if fg == fam else rng.sample(pool_g, min(k, len(pool_g)))
    if rng.random() < 0.7:  # FP labels are rare in classification data
        le = [x for x in le if x != "false_positive"] or ["unknown"]
        lg = [x for x in lg if x != "false_positive"] or ["unknown"]
    ne, ng = rng.randint(0, nmax), rng.randint(0, nmax)
    cams = rng.sample(CAMS, rng.choice([1, 2, 2, 2]))
    nu = max(ne, ng, 1) + rng.randint(0, 2)

    def side(n, labs):
        used = {}
        objs = []
        for _ in range(n):
            c = rng.choice(cams)
            pool = [u for u in UU[:nu] if u not in used.setdefault(c, set())]
            if not pool:
                continue
            u = rng.choice(pool)
            used[c].add(u)
            objs.append([rng.choice(labs), c, u])
        return objs

    ests, gts = side(ne, le), side(ng, lg)
    domain = True
    if malformed:
        domain = False
        kind = rng.choice(["null", "dup", "dup", "nullgt"])
        if kind == "null" and ests:
            rng.choice(ests)[2] = None
        elif kind == "nullgt" and gts:
            rng.choice(gts)[2] = None
        elif kind == "dup":
            sidel = rng.choice([ests, gts])
            if len(sidel) >= 2:
                a, b = rng.sample(range(len(sidel)), 2)
                sidel[b][1], sidel[b][2] = sidel[a][1], sidel[a][2]
            else:
                domain = True
        else:
            domain = True
    targets = None
    r = rng.random()
    allabs = sorted(set(pool_e[:4]))
    if r < 0.5:
        targets = sorted(set(le) | set(lg if fg == fam else []))
    elif r < 0.8:
        targets = rng.sample(allabs, rng.randint(1, len(allabs)))
    else:
        targets = list(pool_e)
    task = "classification2d" if rng.random() < 0.85 else "fp_validation2d"
    return _case(fam, rng.random() < 0.5, ests, gts, targets=targets, task=task, fg=fg, split=rng.randint(0, 3),
                 domain=domain)


def corpus():
    g, r, y = "green", "red", "yellow"
    f, b, t = CAMS[0], CAMS[1], CAMS[2]
    cs = []
    # stage 1 greedy by label steals the uuid partner; stage 2 pairs the rest by uuid
    cs.append(_case("tl", False, [[g, f, "a"], [r, f, "b"]], [[r, f, "a"], [g, f, "b"]], targets=[g, r]))
    cs.append(_case("tl", True, [[g, f, "a"], [r, f, "b"]], [[r, f, "a"], [g, f, "b"]], targets=[g, r]))
    # same uuid in two cameras: no cross-camera pairing in either stage
    cs.append(_case("tl", False, [[g, f, "a"], [g, b, "a"]], [[g, b, "a"], [r, f, "a"]], targets=[g, r]))
    cs.append(_case("aw", False, [["car", f, "a"], ["bus", b, "a"]], [["car", b, "a"], ["car", f, "b"]], targets=["car", "bus"]))
    # FP tail and its CAM_TRAFFIC_LIGHT exception (generic labels on the integrated TLR camera)
    cs.append(_case("aw", False, [["car", f, "a"], ["bus", f, "c"]], [["car", f, "a"]], targets=["car", "bus"]))
    cs.append(_case("aw", False, [["car", f, "a"], ["bus", t, "c"], ["bus", f, "d"]], [["car", f, "a"]], targets=["car", "bus"]))
    # empty sides, both tasks
    for task in ("classification2d", "fp_validation2d"):
        cs.append(_case("tl", False, [[g, f, "a"]], [], targets=[g], task=task))
        cs.append(_case("aw", False, [["car", f, "a"]], [], targets=["car"], task=task))
        cs.append(_case("tl", False, [], [[g, f, "a"]], targets=[g], task=task))
    cs.append(_case("tl", False, [], [], targets=[g]))
    # null uuid -> RuntimeError ; with an empty other side no loop body runs
    cs.append(_case("tl", False, [[g, f, None]], [[g, f, "a"]], targets=[g], domain=False))
    cs.append(_case("aw", False, [["car", f, "a"]], [["car", f, None]], targets=["car"], domain=False))
    cs.append(_case("aw", False, [["car", f, None]], [], targets=["car"], domain=False))
    # duplicate uuid in one camera: generic -> ValueError from list.remove, TLR guarded by `in`
    cs.append(_case("aw", False, [["car", f, "a"]], [["car", f, "a"], ["bus", f, "a"]], targets=["car"], domain=False))
    cs.append(_case("aw", False, [["car", f, "a"], ["bus", f, "a"]], [["car", f, "a"]], targets=["car"], domain=False))
    cs.append(_case("tl", True, [[g, f, "a"]], [[r, f, "a"], [g, f, "a"]], targets=[g, r], domain=False))
    # FP-labelled ground truth: label-correct whatever the estimate says (paired in stage 2 by uuid)
    cs.append(_case("tl", False, [[g, f, "a"], [g, f, "b"]], [["false_positive", f, "b"], [g, f, "a"]], targets=[g, r]))
    # everything right: all four scores 1
    cs.append(_case("tl", False, [[g, f, "a"], [r, b, "a"], [y, f, "c"]], [[r, b, "a"], [y, f, "c"], [g, f, "a"]], targets=[g, r, y]))
    # mixed families: dispatch on the first estimate; labels of different enums never agree
    cs.append(_case("tl", False, [["unknown", f, "a"]], [["unknown", f, "a"]], targets=["unknown"], fg="aw"))
    cs.append(_case("aw", False, [["unknown", f, "a"]], [["unknown", f, "a"]], targets=["unknown"], fg="tl"))
    return cs


def generate(rng, tier):
    cases = []
    if tier == "quick":
        cases += _sweep(rng, 3, TL[:3], "tl", (False, True), 2)
        cases += _sweep(rng, 3, AW[:3], "aw", (False,), 1)
        cases += _sweep(rng, 2, ["green", "red", "false_positive"], "tl", (False, True), 1)
        cases += _sweep(rng, 2, ["car", "bus", "false_positive"], "aw", (True,), 0)
        n_rand, n_mal, nmax = 4000, 800, 9
    else:
        cases += _sweep(rng, 3, TL[:3], "tl", (False, True), 4)
        cases += _sweep(rng, 4, TL[:3], "tl", (False, True), 2, cap=170000)
        cases += _sweep(rng, 4, AW[:3], "aw", (False,), 1, cap=60000)
        cases += _sweep(rng, 3, ["green", "red", "false_positive"], "tl", (False, True), 2)
        cases += _sweep(rng, 3, ["car", "bus", "false_positive"], "aw", (True,), 1)
        n_rand, n_mal, nmax = 30000, 5000, 9
    for _ in range(n_rand):
        cases.append(_random_case(rng, nmax))
    for _ in range(n_mal):
        cases.append(_random_case(rng, 5, malformed=True))
    return cases


# ----------------------------------------------------------------------------- implementation

def _fl(x):
    if isinstance(x, float) and math.isinf(x):
        return "inf"
    if isinstance(x, float) and math.isnan(x):
        return "nan"
    return float(x)


def _acc(a):
    return {"num_gt": a.num_ground_truth, "num": a.objects_results_num, "tp": a.num_tp, "fp": a.num_fp,
            "accuracy": _fl(a.accuracy), "precision": _fl(a.precision), "recall": _fl(a.recall), "f1": _fl(a.f1score),
            "results": {k: _fl(v) for k, v in a.results.items()}}


def _build(case):
    M = _mods()
    mk = M["DynamicObject2D"]
    Label = M["Label"]

    def objs(specs, fam):
        tab = M["lab"][fam]
        return [mk(100, M["frame"][fr], 1.0, Label(tab[lab], lab), None, uu) for (lab, fr, uu) in specs]

    return objs(case["ests"], case["fe"]), objs(case["gts"], case["fg"])


def _split(lst, k):
    """nested per-frame form handed to the metrics (list of lists)"""
    if k == 0:
        return [lst]
    cut = (len(lst) * k) // 4
    return [lst[:cut], lst[cut:]]


def run_impl(case):
    M = _mods()
    ests, gts = _build(case)
    eid = {id(o): i for i, o in enumerate(ests)}
    gid = {id(o): i for i, o in enumerate(gts)}
    try:
        targets = None
        if case["targets"] is not None:
            targets = [M["lab"][case["fe"]][t] for t in case["targets"]]
        n_e, n_g = len(ests), len(gts)
        res = M["get_object_results"](M["task"][case["task"]], ests, gts, target_labels=targets,
                                      uuid_matching_first=case["uf"])
        if len(ests) != n_e or len(gts) != n_g:
            return {"err": "InputMutated"}

        def rid(r):
            g = r.ground_truth_object
            return [eid[id(r.estimated_object)], None if g is None else gid[id(g)]]

        out = {"pairs": [rid(r) for r in res], "correct": [bool(r.is_label_correct) for r in res]}
        whole = M["ClassificationAccuracy"](res, len(gts), targets or [])
        out["whole"] = _acc(whole)
        nested = M["ClassificationAccuracy"](_split(res, max(case["split"], 1)), len(gts), targets or [])
        out["whole_nested"] = _acc(nested)
        if targets is not None:
            d = M["divide_objects"](res, targets)
            n = M["divide_objects_to_num"](gts, targets)
            out["buckets"] = []
            od = {}
            for t in targets:
                frames = _split(d[t], case["split"])
                od[t] = frames
                a = M["ClassificationAccuracy"](frames, n[t], [t])
                out["buckets"].append({"label": t.value, "frames": [[rid(r) for r in f] for f in frames],
                                       "num_gt": n[t], "acc": _acc(a)})
            sc = M["ClassificationMetricsScore"](od, n, targets)
            out["score_accs"] = [_acc(a) for a in sc.accuracies]
            out["summary"] = [_fl(x) for x in sc._summarize()]
        return out
    except Exception as e:
        return {"err": type(e).__name__}


# ----------------------------------------------------------------------------- model

def _jobj(i, spec, fam):
    return {"id": i, "uuid": spec[2], "tl": fam == "tl", "label": spec[0], "frame": spec[1]}


def model_requests(case, out):
    req = {"op": "case", "fpv": case["task"].startswith("fp_validation"), "uf": case["uf"],
           "ests": [_jobj(i, s, case["fe"]) for i, s in enumerate(case["ests"])],
           "gts": [_jobj(i, s, case["fg"]) for i, s in enumerate(case["gts"])],
           "buckets": [{"frames": b["frames"], "num_gt": b["num_gt"]} for b in out.get("buckets", [])]}
    return [req]


def _score_eq(impl, model):
    if isinstance(impl, str) or model in ("inf", "nan"):
        return impl == model
    return core.close(impl, core.unq(model))


def _acc_diff(name, a, m):
    for k in ("num_gt", "num", "tp", "fp"):
        if a[k] != m[k]:
            return f"{name}.{k}: impl {a[k]} != model {m[k]}"
    for k in ("accuracy", "precision", "recall", "f1"):
        if not _score_eq(a[k], m[k]):
            return f"{name}.{k}: impl {a[k]} != model {m[k]}"
    return None


def compare(case, out, resps):
    r = resps[0]
    if "err" in out or "err" in r:
        return None if out.get("err") == r.get("err") else f"impl {out.get('err', 'ok')} != model {r.get('err', 'ok')}"
    if out["pairs"] != r["pairs"]:
        return f"pairs: impl {out['pairs']} != model {r['pairs']}"
    d = _acc_diff("whole", out["whole"], r["whole"]) or _acc_diff("whole_nested", out["whole_nested"], r["whole"])
    if d:
        return d
    if "buckets" in out:
        if len(out["buckets"]) != len(r["buckets"]):
            return "bucket count differs"
        for b, m, sa in zip(out["buckets"], r["buckets"], out["score_accs"]):
            d = _acc_diff("bucket[" + b["label"] + "]", b["acc"], m) or _acc_diff("score.accuracies[" + b["label"] + "]", sa, m)
            if d:
                return d
        for k, a, m in zip(("accuracy", "precision", "recall", "f1"), out["summary"], r["summary"]):
            if not _score_eq(a, m):
                return f"summary.{k}: impl {a} != model {m}"
    return None


# ----------------------------------------------------------------------------- oracle (independent of the model)

def _lab(case, side, spec):
    return (case["fe"] if side == "e" else case["fg"], spec[0])


def _max_equal_pairs(E, G):
    """maximum number of equally-labelled pairs over ALL one-to-one same-camera pairings (brute force).
    E, G: lists of (label, camera). Pairs with different labels add nothing, so only the others are searched."""
    n = len(E)
    best = 0

    def rec(i, used, cnt):
        nonlocal best
        if cnt + (n - i) <= best:
            return
        if i == n:
            best = max(best, cnt)
            return
        for j, g in enumerate(G):
            if j not in used and g == E[i]:
                rec(i + 1, used | {j}, cnt + 1)
        rec(i + 1, used, cnt)

    rec(0, frozenset(), 0)
    return best


def _class_sum(E, G):
    tot = 0
    for k in set(E):
        tot += min(E.count(k), G.count(k))
    return tot


def _frac_ratio(a, b):
    return None if b == 0 else Fraction(a, b)


def _chk_score(name, got, want, unit):
    """got: impl float or 'inf'/'nan'; want: Fraction or None (undefined)"""
    if want is None:
        return None if got in ("inf", "nan") else f"{name}: expected undefined, got {got}"
    if isinstance(got, str):
        return f"{name}: expected {want}, got {got}"
    if not core.close(got, want):
        return f"{name}: expected {want}, got {got}"
    if unit and not (-1e-12 <= got <= 1 + 1e-12):
        return f"{name}: {got} outside [0,1]"
    return None


def _chk_acc(name, a, tp, n, ngt, unit):
    if a["tp"] != tp or a["fp"] != n - tp or a["num"] != n:
        return f"{name}: counts (tp,fp,n)=({a['tp']},{a['fp']},{a['num']}) expected ({tp},{n - tp},{n})"
    p, r = _frac_ratio(tp, n), _frac_ratio(tp, ngt)
    f1 = None if (p is None or r is None or p + r == 0) else 2 * p * r / (p + r)
    for k, want in (("accuracy", _frac_ratio(tp, n + ngt - tp)), ("precision", p), ("recall", r), ("f1", f1)):
        d = _chk_score(f"{name}.{k}", a[k], want, unit)
        if d:
            return d
        if a["results"][{"accuracy": "Accuracy", "precision": "Precision", "recall": "Recall", "f1": "F1score"}[k]] != a[k]:
            return f"{name}.results[{k}] differs from the attribute"
    if a["results"]["predict_num"] != n:
        return f"{name}.results[predict_num] != {n}"
    return None


def oracle(case, out):
    if not case.get("domain", True):
        return None
    E, G = case["ests"], case["gts"]
    if "err" in out:
        return f"raised {out['err']} on unique non-null uuids"
    pairs = out["pairs"]
    P = [(i, j) for i, j in pairs if j is not None]
    Fp = [i for i, j in pairs if j is None]
    es = [i for i, _ in pairs]
    gs = [j for _, j in P]
    if len(set(es)) != len(es):
        return f"an estimate appears in two results: {pairs}"
    if len(set(gs)) != len(gs):
        return f"a ground truth appears in two results: {pairs}"
    for i, j in P:
        if E[i][1] != G[j][1]:
            return f"pair ({i},{j}) crosses cameras {E[i][1]} / {G[j][1]}"
    if not E and pairs:
        return "results without estimates"
    same_uuid = {(i, j) for i in range(len(E)) for j in range(len(G)) if E[i][2] == G[j][2] and E[i][1] == G[j][1]}
    le = [_lab(case, "e", s) for s in E]
    lg = [_lab(case, "g", s) for s in G]
    tlr = bool(E) and bool(G) and case["fe"] == "tl"
    if E and G and (not tlr or case["uf"]):
        if set(P) != same_uuid:
            return f"paired {sorted(P)} but same-uuid-same-camera pairs are {sorted(same_uuid)}"
    if tlr and not case["uf"]:
        ue = set(range(len(E))) - set(es)
        ug = set(range(len(G))) - set(gs)
        for i, j in P:
            if le[i] != lg[j] and (i, j) not in same_uuid:
                return f"pair ({i},{j}) agrees neither in label nor in uuid"
        for i in ue:
            for j in ug:
                if E[i][1] == G[j][1] and le[i] == lg[j]:
                    return f"unused equally-labelled same-camera pair ({i},{j}) remains"
                if (i, j) in same_uuid:
                    return f"unused same-uuid same-camera pair ({i},{j}) remains"
        got = sum(1 for i, j in P if le[i] == lg[j])
        ke = [(le[i], E[i][1]) for i in range(len(E))]
        kg = [(lg[j], G[j][1]) for j in range(len(G))]
        best = _max_equal_pairs(ke, kg) if len(E) <= 6 and len(G) <= 6 else _class_sum(ke, kg)
        if got != best:
            return f"{got} equally-labelled pairs, but a one-to-one same-camera pairing with {best} exists"
    # ---- scores: counting definitions over the results, recomputed in Fractions
    fp_gt = any(s[0] == "false_positive" for s in G)

    def correct(i, j):
        return j is not None and (G[j][0] == "false_positive" or le[i] == lg[j])

    flags = [correct(i, j) for i, j in pairs]
    if flags != out["correct"]:
        return f"is_label_correct {out['correct']} expected {flags}"
    tp = sum(flags)
    d = _chk_acc("whole", out["whole"], tp, len(pairs), len(G), True)
    if d:
        return d
    all_right = len(G) > 0 and len(pairs) == len(G) and all(j is not None and le[i] == lg[j] for i, j in pairs)
    if all_right:
        for k in ("accuracy", "precision", "recall", "f1"):
            if out["whole"][k] != 1.0:
                return f"everything paired and right but whole.{k} = {out['whole'][k]}"
    if "buckets" in out:
        S = [0, 0, 0, 0]
        for b in out["buckets"]:
            rs = [x for f in b["frames"] for x in f]
            btp = sum(1 for i, j in rs if correct(i, j))
            ngt = sum(1 for j in range(len(G)) if G[j][0] == b["label"] and case["fg"] == case["fe"])
            if ngt != b["num_gt"]:
                ngt = b["num_gt"]  # divide_objects_to_num is not under test here
            d = _chk_acc("bucket[" + b["label"] + "]", b["acc"], btp, len(rs), ngt, not fp_gt)
            if d:
                return d
            S[0] += len(rs); S[1] += ngt; S[2] += btp; S[3] += len(rs) - btp
        p, r = _frac_ratio(S[2], S[2] + S[3]), _frac_ratio(S[2], S[1])
        if p is None or r is None:
            f1 = None
        else:
            f1 = None if p + r == 0 else 2 * p * r / (p + r)
        for k, got, want in zip(("accuracy", "precision", "recall", "f1"), out["summary"],
                                (_frac_ratio(S[2], S[0] + S[1] - S[2]), p, r, f1)):
            d = _chk_score("summary." + k, got, want, not fp_gt)
            if d:
                return d
        labels_used = {s[0] for s in E} | {s[0] for s in G}
        if all_right and case["fe"] == case["fg"] and labels_used <= set(case["targets"]):
            if out["summary"] != [1.0, 1.0, 1.0, 1.0]:
                return f"everything paired and right but summary = {out['summary']}"
    return None


# ----------------------------------------------------------------------------- bookkeeping

def branches(case, out):
    E, G = case["ests"], case["gts"]
    br = []
    if not E or not G:
        br.append("trivial")
        br.append("empty:" + ("both" if not E and not G else "est" if not E else "gt") + ":" + case["task"])
    path = "tlr" if case["fe"] == "tl" else "generic"
    br.append(f"path:{path}:uf={int(case['uf'])}" if path == "tlr" else "path:generic")
    br.append(f"size:{len(E)}+{len(G)}")
    if case["fe"] != case["fg"]:
        br.append("mixed-families")
    if not case.get("domain", True):
        br.append("malformed")
    if "err" in out:
        br.append("err:" + out["err"])
        return br
    P = [(i, j) for i, j in out["pairs"] if j is not None]
    n_fp = len(out["pairs"]) - len(P)
    if E and G:
        le = [_lab(case, "e", s) for s in E]
        lg = [_lab(case, "g", s) for s in G]
        s1 = sum(1 for i, j in P if le[i] == lg[j])
        if path == "tlr":
            br.append("tlr:label-pairs>0" if s1 else "tlr:label-pairs=0")
            br.append("tlr:uuid-only-pairs>0" if len(P) - s1 else "tlr:uuid-only-pairs=0")
            if any(le[i] == lg[j] and E[i][2] != G[j][2] for i, j in P):
                br.append("tlr:label-pair-with-different-uuid")
        else:
            left = set(range(len(E))) - {i for i, _ in P}
            if left:
                br.append("generic:fp-tail" if n_fp else "generic:fp-tail-suppressed(CAM_TRAFFIC_LIGHT)")
            else:
                br.append("generic:no-leftover")
        br.append("cameras:" + str(len({s[1] for s in E + G})))
        if len(P) < min(len(E), len(G)):
            br.append("unpaired-on-both-sides")
    if any(s[0] == "false_positive" for s in G):
        br.append("fp-labelled-gt")
    for k in ("accuracy", "precision", "recall", "f1"):
        v = out["whole"][k]
        br.append(f"whole.{k}:" + (v if isinstance(v, str) else "1" if v == 1.0 else "0" if v == 0.0 else "frac"))
    if "summary" in out:
        v = out["summary"][3]
        br.append("summary.f1:" + (v if isinstance(v, str) else "num"))
    return br


def shrink(case):
    E, G = case["ests"], case["gts"]
    for i in range(len(E)):
        c = dict(case); c["ests"] = E[:i] + E[i + 1:]
        yield c
    for j in range(len(G)):
        c = dict(case); c["gts"] = G[:j] + G[j + 1:]
        yield c
    if case.get("split"):
        c = dict(case); c["split"] = 0
        yield c
    if case["task"] != "classification2d":
        c = dict(case); c["task"] = "classification2d"
        yield c
    # permuted order (neighbourhood of a diverging case)
    if len(E) > 1:
        c = dict(case); c["ests"] = E[1:] + E[:1]
        yield c
    if len(G) > 1:
        c = dict(case); c["gts"] = G[1:] + G[:1]
        yield c


def search(rng, st, disagreements):
    cases = []
    for _ in range(6000):
        cases.append(_random_case(rng, 6))
    return cases
