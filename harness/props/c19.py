"""C19 — analysis tables are a faithful tabulation of the frame results.

Tie to the code: every case is a list of scenes, each a list of frames (ground truth + estimates in the
ego frame, optionally rendered into the map frame with an ego pose).  The REAL
`PerceptionEvaluationManager.add_frame_result` evaluates every frame; the REAL `PerceptionAnalyzer3D`
tabulates them (`add` per scene), and `df`, the `num_*` properties, `analyze()` (ratio / error /
confusion matrix, with label / scene / frame / area / status / distance selections, 1/3/9 area divisions)
and `get_object_status` are observed.  The Lean model receives the four pass/fail lists of every frame
(uuids, labels, and the harness' own ego-frame coordinates as exact rationals) and must reproduce the row
layout, counts, errors, summaries, rates, confusion matrix and tallies.  The oracle states the property on
the real outputs with references recomputed from the generated scene, independent of the model.

Selections: for every selection the selected table itself is observed (the selected row pairs, counts over it, row-wise keyword counts).
The model must select the same pairs (`PEval.Analyzer.selectTable`); the oracle evaluates the documented pair predicate on the
generated scene (every given keyword carried by SOME row of the pair; SOME row with d0 <= ego-frame distance < d1, exact rational
arithmetic, undecided within 1e-6 of a bound in the map frame) and demands that the selected table holds exactly those pairs, whole
(in any order), and that counts, paired rows, the confusion-matrix total and the error summaries are those of the selected items.
Row pairs are identified by what they are - (scene, frame, status, uuid of the ground-truth row, uuid of the estimation row) - never by
their place or number in the table: the property fixes neither.  An inverted distance range (min >= max) is not a selection: not judged.

Known findings (F11, N1, N2 - the only ids `known_finding` returns, all of kind "known" in known_findings.json): the oracle states every
clause so that the property-conform behaviour passes, and attributes to a finding only its exact listed deviation -
F11: ground-truth count = conform count + number of ground truths held by an FP row pair AND by an FN row pair; tallies = one extra
(total, FP) entry per frame in which an FP result carries the ground truth as an ordinary one that the frame also lists FN.  Conform (each
accepted): the FN list no longer lists a carried ground truth; the FP row pair holds the estimate only; the count de-duplicates; the tallies
record the ground truth once under either status the lists give it.
N1: a per-label TP rate v > 1 with v == #TP pairs of the selection whose ESTIMATE has the label / #ground-truth rows of the selection with
the label, and such a TP pair with another ground-truth label inside the selection.
N2: num_* raising TypeError on a table built from zero items (returning 0 is conform, per getter).
The model reproduces the defective behaviour; `compare` accepts the modelled and the conform outcome on exactly those inputs (see `compare`),
the table layout is probed on the real table and handed to the model (`_gt_dropped_pairs`), N2 is probed on the real class (`_empty_raises`).

Additions after the audit: (a) op `raw_rows`: the model also receives the objects AS GIVEN to the real code (base_link or map frame,
with heights, and the frame's ego pose) and applies its own model of `transforms.transform((frame, BASE_LINK), ...)` of `format2dict` /
`get_area_idx` (`PEval.Analyzer.addAllRaw`); the resulting x, y, yaw, area and distance columns are compared with the real table.
(b) `GroundTruthStatus.get_status_rates()`, `StatusRate.rate` and `get_scene_rates()` are observed on the real records and compared
with `PEval.Analyzer.statusRates` / `sceneRates` (defined rates only, as a mapping status -> rate); they are OBSERVED, not judged: the
oracle has no clause about them (not clauses of C19); what a never-occurred status or an empty list yields is left open.
(c) flavour `n3` and corpus case n3.json: pass/fail target labels that hold "false_positive" while the config's do not; an FP result then
keeps an FP-labelled ground truth; `get_confusion_matrix()` / `analyze()` used to raise ValueError there (N3, fixed in /repo by 24663d1: the
labels met in the paired rows are appended to the index of the matrix); the model follows the repaired code (the matrix is compared as a
mapping (row label, column label) -> count: the property does not fix the order of the index), the oracle judges these cases like any other.
"""
from __future__ import annotations

import json
import math
import os
import tempfile
from fractions import Fraction
from pathlib import Path

from .. import core

os.environ.setdefault("TQDM_DISABLE", "1")  # the analyzer wraps its loops in tqdm

PROP = "C19"
EXHAUSTIVE = False
RULE = (
    "random scenes: 1..3 scenes x 1..5 frames, 0..6 ground truths on a sparse dyadic grid (ordinary / FP-labelled, uuids "
    "persistent across the frames of a scene), estimates derived per ground truth (near = TP, far or wrong label = FP "
    "carrying the GT [F11], none = FN, near an FP-labelled GT = TN or, with 'false_positive' a target label, FP carrying "
    "the FP-labelled GT) plus free estimates (GT-less FP); BASE_LINK or MAP frame with per-frame ego poses; detection / "
    "tracking; label policies default / allow_unknown / allow_any; matchable radius on/off; critical filter narrower than "
    "the manager filter (x/y or distance ranges); 1/3/9 area divisions; objects exactly on area / distance boundaries "
    "(BASE_LINK); 4..7 selections per case (label, scene, frame, area, status, uuid, distance, combinations, inverted "
    "distance); flavours: plain (F11 frequent), no_f11, n1 (TP pairs with different labels, finding N1), empty (finding N2); "
    "the class SELECTIONS (2 extra selections per case, 6..8 in the flavour 'distance' whose row pairs have EXACT ego-frame distances "
    "c*m/8 on Pythagorean rays): distance ranges placed relative to one likely row pair - strictly between its two rows (the pair "
    "straddles the range on both sides), with a bound ON a row's distance (lower inclusive, upper exclusive), holding only one row, "
    "both, just beside; keywords carried by ONE row of a pair only (label of a wrong-label / unknown estimate, uuid of either row); "
    "empty selections (absent label / uuid / scene / frame / area, empty list, far range); combinations of 2..4 keywords read off one "
    "likely pair (non-empty) or drawn independently; every entry point: analyze(**kw), get(**kw) / filter(**kw) + "
    "filter_by_distance(range, df) / filter_by_distance(range) + summarize_ratio / summarize_error / get_confusion_matrix / "
    "get_pair_results / get_num_*(df=selection) / get_num_*(**kw); the range as tuple / list / ndarray / ints; "
    "a case is non-trivial when its table has at least one row; distinct = distinct canonical case; "
    "first of all the witness inputs of the decision tables (kinds 'area', 'rows'): concrete inputs realising the valuations on which "
    "the code's regenerated table and the model's skeleton differ (none on an unchanged source); "
    "last, from a generator of its own (the cases before are unaffected): 6 (quick) / 36 (thorough) cases of flavour n3 - pass/fail target labels = "
    "config labels + 'false_positive', FP-labelled ground truths with a MATCHING estimate (an FP result keeping the FP-labelled GT: N3), every ground "
    "truth and its estimates at their own height, the ego (map frame) at another height"
)
THEOREMS = [
    "PEval.C19." + t
    for t in [
        "rows_per_item", "rows_per_item_flat", "index_range", "frame_block",
        "status_counts_eq_lists", "num_estimation_eq",
        "num_gt_exact", "num_gt_eq_critical_partial", "passFail_wf",
        "num_gt_exact_passFail",
        "object_status_tallies", "object_status_total_exact", "object_status_once_partial",
        "pairs_eq_lists", "errors_eq_gt_minus_est", "yaw_error_wrapped",
        "summary_defs", "summary_max_min",
        "rates_in_unit_all", "rates_in_unit_label_partial", "label_tp_rate_exact",
        "confusion_sum", "confusion_none_iff",
        "area_idx_unique", "area_idx_inside",
        "num_props_empty",
        # selections: which sub-table, what the pair predicate says, counts over a selection = counts of the selected items
        "selection_exact", "selection_predicate", "selection_counts", "selection_confusion_sum", "selection_counts_whole",
        "example_straddle",
        # decision tables extracted from the real code (harness/dt_c19.py), regenerated on every run
        "analyzer_table_check", "analyzer_code_table_eq_model", "area_code_table_eq_getAreaIdx", "table_area_spec",
        "table_on_grid_line", "area_code_table_eq_atoms", "rows_code_table_rel_atoms", "rowsRel_eq_of_noF11",
        "rows_code_table_eq_model", "table_rows_per_item", "table_rows_examples",
        # N3 (fixed): the repaired get_confusion_matrix / analyze are total, the matrix sums to the paired rows over the extended index and
        # equals the old one whenever that was defined; the PRE-FIX functions raised ValueError iff a paired row carries a label outside
        # target_labels + unknown; witness for a variant that drops such rows
        "confusion_total", "analyze_total", "confusion_error_iff", "analyze_error_iff", "confusion_error_frames", "analyze_total_of_labels", "example_n3",
        "confusion_skip_fails",
        # rows are expressed in the ego frame for objects given in base_link OR map (format2dict / get_area_idx transform steps)
        "rows_from_raw", "ego_row_of_rendering", "ego_frame_invariance", "example_ego_rows", "toRow_noTransform_fails",
        # which rows feed summarize_error (ALL; per label keyed by the GROUND TRUTH's label) and what the summaries are
        "error_summary_rows", "error_summary_whole", "error_summary_functions", "example_error_summary", "summary_by_est_fails",
        # GroundTruthStatus.get_status_rates / StatusRate.rate / get_scene_rates
        "status_rates_unit", "scene_rates_unit_sum", "scene_rates_f11_exact", "example_status_rates",
    ]
]
TRUSTED = [
    "pandas (MultiIndex frames, xs, boolean masks, groupby(level=0).any(), concat) is modelled by lists of row pairs",
    "pyquaternion yaw_pitch_roll / HomogeneousMatrix inverse: op 'analyze' receives the ego-frame x, y, yaw of the generated scene (truth); op 'raw_rows' receives the "
    "objects AS GIVEN to the real code (the floats of the base_link / map coordinates as exact rationals, the map-frame yaw and the ego yaw in half-turns, the ego "
    "rotation as the rationals of cos / sin) and applies the model of transform((frame, BASE_LINK), ...) itself (PEval.Analyzer.addAllRaw); both are compared with "
    "the real table within 1e-9 (that rot and tau describe the same angle is the bridge of DESIGN 4.2)",
    "numpy mean/std/sqrt/max/min/bincount: the model computes mean, RMS^2, variance, max|e|, min|e| exactly",
    "harness/dt_c19.py + harness/dtable.py + harness/dt_multi.py (decision-table translator): the symbolic numbers (rational linear "
    "forms that numpy stores in object arrays; a comparison is answered from one order atom per (position, grid line); the sign of "
    "c*max_x is the sign of c), the stub object / transform (an object exposes frame_id and state.position, the transform answers the "
    "ego-frame leaves), the result proxies of the row-status kernel (delegation to a real result with / without ground truth), the "
    "DFS over decisions, the encoding of the DataFrame as a number (row pairs read from the index whatever its labels, written as a sorted "
    "multiset; compared with the model's by PEval.AnalyzerDT.rowsRel: equal, or an FP pair carrying a ground truth shows the estimate "
    "only - the table-layout repair of F11), the Lean emission; order atoms of different grid lines are "
    "treated as independent (over-approximation)",
]
ASSUMPTIONS = [
    "ground truths of one frame are pairwise distinct under DynamicObject.__eq__ and have distinct uuids (C03's hypothesis)",
    "max_x_position, max_y_position > 0",
    "columns speed, nn_plane, distance (square roots) and the metric-score columns of analyze().score are not modelled (AP/CLEAR belong to C04/C05)",
    "N3 (FIXED in /repo, fix: 24663d1): with pass/fail target labels that hold 'false_positive' while the evaluation config's do not (flavour 'n3', corpus n3.json), an "
    "FP result keeps an FP-labelled ground truth and the paired row carries a label outside target_labels + unknown; get_confusion_matrix() / analyze() used to raise "
    "ValueError there (pre-fix model getConfusionMatrixOld / analyzeOld, PEval.C19.confusion_error_iff); the repaired code appends such labels to the index, the model "
    "follows it (PEval.C19.confusion_total) and the oracle judges these cases like any other (no exception, matrix sums to the paired rows); every other flavour uses "
    "the config's labels for pass/fail",
    "StatusRate.rate / get_status_rates / get_scene_rates are observed, not judged (by the property text not C19 clauses: the [0,1] clause is about analyze()'s ratios): "
    "the model computes them as the code does (PEval.C19.status_rates_unit), the correspondence compares the defined rates (count > 0) as a mapping status -> rate; "
    "float('inf') for a status that never occurred / an empty list is left open (histogram key observed:status-rate-inf); the tallies themselves are judged against "
    "the pass/fail lists (F11)",
    "order and numbering of the row pairs, order of the ratio / confusion-matrix index, of status records and their frame lists, exception classes, the `std` and `min` "
    "summaries and inverted distance ranges are not part of the property: not judged, compared canonically or not at all",
    "the `area` of a row pair is judged against the analyzer's own rectangles (upper_rights / bottom_lefts, closed, 1e-6 slack): some row of the pair lies in it; grid "
    "lines and which row decides are left open",
    "add_frame is exercised through add() (a direct call raises KeyError because add() creates the transforms entry)",
    "analyze() on an empty table with keyword selections is not exercised",
    "get_num_*(df=<empty selection of a non-empty table>) raises KeyError in the unchanged library; analyze() never calls them there (it returns "
    "the empty result first), so counts over a selection are observed for non-empty selections only",
    "a distance bound closer than 1e-6 (map frame; 1e-9 in BASE_LINK unless exactly equal) to a row's distance leaves that row undecided in the oracle",
    "evaluation_task fp_validation is not exercised (the manager cannot load the sample dataset for it); FP-labelled ground truths are exercised under detection/tracking",
]

F11 = "F11-analyzer-double-count"
N1 = "N1-analyzer-label-rate-above-one"
N2 = "N2-analyzer-empty-table-typeerror"

CORPUS_DIR = Path(__file__).resolve().parent.parent / "corpus" / "c19"
SAMPLE = str(core.REPO / "perception_eval" / "test" / "sample_data")
PI = math.pi
FPL = "false_positive"
COLS = ["x", "y", "yaw", "length", "width", "vx", "vy"]

_tmp = None


def _tmpdir():
    global _tmp
    if _tmp is None:
        _tmp = tempfile.mkdtemp(prefix="c19_")
    return _tmp


# ----------------------------------------------------------------------------- building real objects

def _yaw(k):
    """object yaw: k sixteenths of a half-turn"""
    return k * PI / 16.0


def _label(name):
    from perception_eval.common.label import AutowareLabel, Label

    l = AutowareLabel(name)
    return Label(l, l.value, [])


def _render(o, frame_id, ego):
    """(x, y, z, yaw) exactly as handed to the real DynamicObject: the ego-frame data, moved into the map frame if asked
    (ego = [x, y, yaw in sixteenths of a half-turn] or [x, y, yaw, z])"""
    x, y, z, yaw = o["x"], o["y"], o.get("z", 0.0), _yaw(o["yaw"])
    if frame_id == "map":
        ex, ey, ek = ego[:3]
        c, s = math.cos(_yaw(ek)), math.sin(_yaw(ek))
        x, y, yaw = ex + c * x - s * y, ey + s * x + c * y, yaw + _yaw(ek)
        z = z + (ego[3] if len(ego) > 3 else 0.0)
    return x, y, z, yaw


def _mk(o, t, frame_id, ego):
    """the real DynamicObject of a case object (ego-frame data), rendered into the map frame if asked"""
    from perception_eval.common.object import DynamicObject
    from perception_eval.common.schema import FrameID
    from perception_eval.common.shape import Shape, ShapeType
    from pyquaternion import Quaternion

    x, y, z, yaw = _render(o, frame_id, ego)
    vel = None if o["v"] is None else (o["v"][0], o["v"][1], 0.0)
    return DynamicObject(
        t, FrameID.MAP if frame_id == "map" else FrameID.BASE_LINK, (x, y, z),
        Quaternion(axis=[0, 0, 1], angle=yaw), Shape(ShapeType.BOUNDING_BOX, (o["w"], o["len"], 1.5)),
        vel, o.get("conf", 0.9), _label(o["l"]), uuid=o["u"], pointcloud_num=10,
    )


def _config(case):
    from perception_eval.config import PerceptionEvaluationConfig

    L = case["labels"]
    d = {
        "evaluation_task": case["task"], "target_labels": L, "min_point_numbers": [0] * len(L),
        "label_prefix": "autoware", "merge_similar_labels": False,
        "center_distance_thresholds": [[1.0] * len(L)], "plane_distance_thresholds": [2.0],
        "iou_2d_thresholds": [0.5], "iou_3d_thresholds": [0.5],
    }
    if case["policy"] == "allow_unknown_flag":
        d["allow_matching_unknown"] = True
    elif case["policy"] != "default":
        d["matching_label_policy"] = case["policy"]
    else:
        d["allow_matching_unknown"] = False
    if case["range"]["kind"] == "xy":
        d["max_x_position"] = case["range"]["max_x"]
        d["max_y_position"] = case["range"]["max_y"]
    else:
        d["max_distance"] = case["range"]["max"]
        d["min_distance"] = case["range"]["min"]
    if case.get("radii") is not None:
        d["max_matchable_radii"] = case["radii"]
    return PerceptionEvaluationConfig(
        dataset_paths=[SAMPLE], frame_id=case["frame_id"], result_root_directory=_tmpdir(), evaluation_config_dict=d
    )


def _area_max(case):
    r = case["range"]
    return (r["max_x"], r["max_y"]) if r["kind"] == "xy" else (100.0, 100.0)


def _evaluate(case):
    """run the real manager on every scene; returns (config, [[PerceptionFrameResult]])"""
    from perception_eval.common.dataset import FrameGroundTruth
    from perception_eval.common.schema import FrameID
    from perception_eval.common.transform import HomogeneousMatrix
    from perception_eval.evaluation.result.perception_frame_config import CriticalObjectFilterConfig, PerceptionPassFailConfig
    from perception_eval.manager import PerceptionEvaluationManager
    from pyquaternion import Quaternion

    cfg = _config(case)
    L = case["labels"]
    scenes = []
    for sc in case["scenes"]:
        m = PerceptionEvaluationManager(cfg)
        for fr in sc:
            ego = fr.get("ego") or [0.0, 0.0, 0]
            if case["frame_id"] == "map":
                tf = HomogeneousMatrix((ego[0], ego[1], ego[3] if len(ego) > 3 else 0.0), Quaternion(axis=[0, 0, 1], angle=_yaw(ego[2])), FrameID.BASE_LINK, FrameID.MAP)
            else:
                tf = HomogeneousMatrix((0.0, 0.0, 0.0), (1.0, 0.0, 0.0, 0.0), FrameID.BASE_LINK, FrameID.MAP)
            t = fr["t"]
            gt = FrameGroundTruth(t, str(fr["n"]), [_mk(o, t, case["frame_id"], ego) for o in fr["gts"]], transforms=[tf])
            from harness import builders as _B  # registry with a history (replaced ego pose), see builders.give_history

            _B.maybe_history(gt, tf, ("c19", t, len(fr["gts"]), ego[0]))
            ests = [_mk(o, t, case["frame_id"], ego) for o in fr["ests"]]
            if case["crit"]["kind"] == "xy":
                crit = CriticalObjectFilterConfig(cfg, L, max_x_position_list=[case["crit"]["x"]] * len(L), max_y_position_list=[case["crit"]["y"]] * len(L))
            else:
                crit = CriticalObjectFilterConfig(cfg, L, max_distance_list=[case["crit"]["max"]] * len(L), min_distance_list=[case["crit"]["min"]] * len(L))
            PL = case.get("pf_labels") or L  # flavour 'n3': pass/fail target labels that differ from the config's
            pf = PerceptionPassFailConfig(cfg, PL, matching_threshold_list=[case["thr"]] * len(PL))
            m.add_frame_result(t, gt, ests, crit, pf)
        scenes.append(list(m.frame_results))
    return cfg, scenes


def _uid(o):
    return None if o is None else o.uuid


def _frame_lists(fr):
    """canonical pass/fail lists of a real frame result (+ what the model of PassFailResult needs).
    The lists, the critical ground truths and the evaluated estimates are public attributes the property is stated over; the
    per-result verdict `results` (get_label_threshold / is_result_correct) only feeds the model's `passfail` op: when those helpers are
    absent or raise, that observation is dropped for the run (`results` = None, histogram key unobservable:passfail-results)."""
    pf = fr.pass_fail_result
    results = None
    try:
        from perception_eval.common.threshold import get_label_threshold
        from perception_eval.evaluation.matching import MatchingMode

        cfgp = pf.frame_pass_fail_config
        results = []
        for r in fr.object_results:
            lab = r.ground_truth_object.semantic_label if r.ground_truth_object is not None else r.estimated_object.semantic_label
            thr = get_label_threshold(lab, cfgp.target_labels, cfgp.matching_threshold_list)
            results.append([r.estimated_object.uuid, _uid(r.ground_truth_object), bool(r.is_result_correct(MatchingMode.PLANEDISTANCE, thr))])
    except Exception:  # noqa: BLE001 - an auxiliary observation, never a verdict
        results = None
    return {
        "n": int(fr.frame_name),
        "tp": [[r.estimated_object.uuid, _uid(r.ground_truth_object)] for r in pf.tp_object_results],
        "fp": [[r.estimated_object.uuid, _uid(r.ground_truth_object)] for r in pf.fp_object_results],
        "tn": [o.uuid for o in pf.tn_objects],
        "fn": [o.uuid for o in pf.fn_objects],
        "critical": [o.uuid for o in fr.frame_ground_truth.objects],
        "n_results": len(fr.object_results),
        "results": results,
    }


def _f(x):
    """a DataFrame number as a JSON value (NaN/None -> None)"""
    if x is None:
        return None
    try:
        x = float(x)
    except (TypeError, ValueError):
        return None
    return None if math.isnan(x) else x


def _cell(row):
    st = row["status"]
    if st is None or (isinstance(st, float) and math.isnan(st)):
        return None
    a = _f(row["area"])
    return {"st": str(st), "u": row["uuid"], "l": row["label"], "x": _f(row["x"]), "y": _f(row["y"]), "yaw": _f(row["yaw"]),
            "area": None if a is None else int(a), "frame": int(row["frame"]), "scene": int(row["scene"]),
            "frame_id": row["frame_id"], "dist": _f(row["distance"])}


def _ilab(i):
    """a level-0 index label as a JSON value"""
    try:
        return int(i)
    except (TypeError, ValueError):
        return str(i)


def _rows(df):
    """the row pairs of a table: [label, "ground_truth", cell | None, label, "estimation", cell | None] per level-0 index label, in
    order of first appearance.  The pairing is read from the index itself (level 0 = the pair, level 1 = the side: the public layout
    `get_ground_truth` / `get_estimation` select by); neither a numbering from 0 nor the order of the two sides is assumed."""
    recs = df.to_dict("records")
    idx = list(df.index)
    groups, order = {}, []
    for (i, side), rec in zip(idx, recs):
        i = _ilab(i)
        if i not in groups:
            groups[i] = {}
            order.append(i)
        if side in groups[i] or side not in ("ground_truth", "estimation"):
            return {"odd": len(idx), "label": i, "side": str(side)}
        groups[i][side] = _cell(rec)
    rows = []
    for i in order:
        g = groups[i]
        if len(g) != 2:
            return {"odd": len(idx), "label": i, "sides": sorted(g)}
        rows.append([i, "ground_truth", g["ground_truth"], i, "estimation", g["estimation"]])
    return rows


def _pair_key(gc, ec):
    """what a row pair IS, independent of its place and number in the table: (scene, frame, status, uuid of the ground-truth row | None,
    uuid of the estimation row | None).  Estimates and ground truths have distinct uuids within a frame, so keys are unique."""
    c = ec if ec is not None else gc
    if c is None:
        return None
    return (c["scene"], c["frame"], c["st"], None if gc is None else gc["u"], None if ec is None else ec["u"])


def _row_keys(rows):
    return [_pair_key(r[2], r[5]) for r in rows]


def _sel_kwargs(sel):
    kw = {}
    for k in ("label", "scene", "frame", "area", "status", "uuid", "distance"):
        if k in sel and sel[k] is not None:
            v = sel[k]
            kw[k] = tuple(v) if k == "distance" else v
    return kw


def _dist_arg(sel, dist):
    """the distance range in the form the selection asks for (the parameter is an `Iterable[float]`)"""
    form = sel.get("dform", "tuple")
    if form == "list":
        return [dist[0], dist[1]]
    if form == "array":
        import numpy as np

        return np.array([dist[0], dist[1]])
    if form == "int" and float(dist[0]).is_integer() and float(dist[1]).is_integer():
        return (int(dist[0]), int(dist[1]))
    return (dist[0], dist[1])


def _select(an, sel):
    """the selected table through the public selection entry points: get(**kw) / filter(**kw), then filter_by_distance"""
    kw = _sel_kwargs(sel)
    dist = kw.pop("distance", None)
    if sel.get("mode") == "filter":
        if dist is not None and not kw:
            return an.filter_by_distance(_dist_arg(sel, dist))  # df=None: the whole table
        df = an.filter(**kw)
    else:
        df = an.get(**kw)
    if dist is not None:
        df = an.filter_by_distance(_dist_arg(sel, dist), df)
    return df


def _sel_table(an, sel, df, table_empty):
    """what was selected: the row pairs (their index labels and their identities), whether pairs are whole, counts on the selection"""
    rows = _rows(df)
    whole = not isinstance(rows, dict)
    if whole:
        index = [r[0] for r in rows]
        keys = [list(k) if k is not None else None for k in _row_keys(rows)]
    else:
        index = sorted({_ilab(i) for i, _ in df.index}, key=str)
        keys = None
    d = {"index": index, "keys": keys, "whole_pairs": whole}
    if len(df) > 0 and whole:
        # (the num_* getters raise KeyError on an EMPTY selection; analyze() never calls them there)
        num = {}
        for k, f in (("gt", an.get_num_ground_truth), ("est", an.get_num_estimation), ("tp", an.get_num_tp), ("fp", an.get_num_fp),
                     ("tn", an.get_num_tn), ("fn", an.get_num_fn)):
            try:
                num[k] = int(f(df=df))
            except Exception as e:
                num[k] = {"err": type(e).__name__}
        d["num"] = num
        try:
            g, _e = an.get_pair_results(df)
            d["paired"] = 0 if g is None else int(len(g))
        except Exception as e:
            d["paired"] = {"err": type(e).__name__}
    kw = _sel_kwargs(sel)
    kw.pop("distance", None)
    if kw and not table_empty:
        rw = {}
        for k, f in (("gt", an.get_num_ground_truth), ("est", an.get_num_estimation), ("tp", an.get_num_tp), ("fp", an.get_num_fp),
                     ("tn", an.get_num_tn), ("fn", an.get_num_fn)):
            try:
                rw[k] = int(f(**kw))
            except Exception as e:
                rw[k] = {"err": type(e).__name__}
        d["rowwise"] = rw
    return d


SUMMARY_KEYS = ("average", "rms", "std", "max", "min")


def _summary_of(err_df, l, c):
    """one row of summarize_error as a dict; a summary the library does not report reads None (the property states mean / RMS / max)"""
    try:
        r = err_df.loc[(l, c)]
    except KeyError:
        return "absent"
    d = {}
    for k in SUMMARY_KEYS:
        try:
            d[k] = _f(r[k])
        except (KeyError, IndexError):
            d[k] = None
    if d["average"] is None and d["rms"] is None and d["max"] is None:
        return None  # NaN: no paired row
    return d


def _analysis(an, sel, labels):
    """one selection through the real analyzer; 'mode' analyze = analyze(), parts / filter = the public pieces"""
    import numpy as np

    kw = _sel_kwargs(sel)
    seld = None
    try:
        df = _select(an, sel)
        seld = _sel_table(an, sel, df, len(an.df) == 0)
        if sel.get("mode", "analyze") == "analyze":
            if "distance" in kw:
                kw["distance"] = _dist_arg(sel, kw["distance"])
            res = an.analyze(**kw)
            if res.score is None:
                return {"none": True, "sel": seld}
            ratio_df, err_df, cm_df = res.score, res.error, res.confusion_matrix
        else:
            if len(df) == 0:
                return {"none": True, "sel": seld}
            ratio_df = an.summarize_ratio(df=df)
            err_df = an.summarize_error(df=df)
            cm_df = an.get_confusion_matrix(df=df)
    except Exception as e:
        return {"err": type(e).__name__, "sel": seld}
    # reading the returned frames (harness code: a failure here is not the property's)
    ratio = {str(l): [_f(ratio_df.loc[l, c]) if c in ratio_df.columns else None for c in ("TP", "FP", "TN", "FN")] for l in ratio_df.index}
    error = {}
    for l in ["ALL"] + labels:
        error[l] = {c: _summary_of(err_df, l, c) for c in COLS}
    cm = None
    cm_labels = None
    if cm_df is not None:
        cm = [[int(v) for v in row] for row in np.array(cm_df)]
        cm_labels = [str(x) for x in cm_df.index]
        cm_cols = [str(x) for x in cm_df.columns]
        if cm_cols != cm_labels:  # columns in another order than the rows: bring them into the order of the index
            if sorted(cm_cols) == sorted(cm_labels):
                pos = [cm_cols.index(x) for x in cm_labels]
                cm = [[row[j] for j in pos] for row in cm]
            else:
                cm_labels = {"rows": cm_labels, "columns": cm_cols}
    # the selected table, for the oracle (number of paired rows)
    rows = _rows(df)
    paired = None if isinstance(rows, dict) else sum(1 for r in rows if r[2] is not None and r[5] is not None)
    return {"ratio": ratio, "error": error, "cm": cm, "cm_labels": cm_labels, "paired_rows": paired, "n_rows": len(df), "sel": seld}


def _status(frames):
    from perception_eval.evaluation.result.perception_frame_result import get_object_status

    return [{"uuid": s.uuid, "total": list(s.total_frame_nums), "tp": list(s.tp_frame_nums), "fp": list(s.fp_frame_nums),
             "tn": list(s.tn_frame_nums), "fn": list(s.fn_frame_nums)} for s in get_object_status(frames)]


def _rate(x):
    """a rate as a JSON value: float, or the string 'inf' / 'nan'"""
    x = float(x)
    return "inf" if math.isinf(x) else "nan" if math.isnan(x) else x


def _status_rates(frames):
    """the REAL GroundTruthStatus.get_status_rates() / StatusRate.rate of every record and get_scene_rates() of the list"""
    from perception_eval.common.status import get_scene_rates
    from perception_eval.evaluation.result.perception_frame_result import get_object_status

    sts = get_object_status(frames)
    recs = []
    for s in sts:
        rs = s.get_status_rates()
        recs.append({"uuid": s.uuid, "order": [str(r.status) for r in rs], "rates": [_rate(r.rate) for r in rs],
                     "counts": [len(r.status_frame_nums) for r in rs], "total": len(s.total_frame_nums)})
    return {"records": recs, "scene": [_rate(x) for x in get_scene_rates(sts)]}


def _run_area(case):
    """kind 'area': the real generate_area_points + get_area_idx on a real object at the ego-frame position (x, y)"""
    from perception_eval.common.schema import FrameID
    from perception_eval.common.transform import HomogeneousMatrix, TransformDict
    from perception_eval.evaluation.result.object_result import DynamicObjectWithPerceptionResult
    from perception_eval.tool.utils import generate_area_points, get_area_idx

    o = _mk({"u": "o", "l": "car", "x": case["x"], "y": case["y"], "yaw": 0, "v": None, "w": 2.0, "len": 4.0}, 1000, "base_link", None)
    tf = TransformDict([HomogeneousMatrix((0.0, 0.0, 0.0), (1.0, 0.0, 0.0, 0.0), FrameID.BASE_LINK, FrameID.MAP)])
    try:
        ur, bl = generate_area_points(case["division"], case["max_x"], case["max_y"])
        out = {"areas": {"ur": [[float(a), float(b)] for a, b in ur], "bl": [[float(a), float(b)] for a, b in bl]}}
    except Exception as e:
        return {"err": type(e).__name__, "stage": "generate_area_points"}
    try:
        arg = DynamicObjectWithPerceptionResult(o, None, transforms=tf) if case.get("wrapped") else o
        r = get_area_idx(arg, ur, bl, tf)
        out["area"] = None if r is None else int(r)
    except Exception as e:
        out["err"] = type(e).__name__
        out["stage"] = "get_area_idx"
    return out


def _run_rows(case):
    """kind 'rows': the real PerceptionAnalyzer3D.add on ONE frame whose pass/fail lists hold real results / objects"""
    from types import SimpleNamespace

    from perception_eval.common.schema import FrameID
    from perception_eval.common.transform import HomogeneousMatrix, TransformDict
    from perception_eval.evaluation.result.object_result import DynamicObjectWithPerceptionResult as Res
    from perception_eval.tool import PerceptionAnalyzer3D

    cfg = _config({"task": "detection", "frame_id": "base_link", "labels": ["car", "pedestrian"], "policy": "default",
                   "range": {"kind": "xy", "max_x": 96.0, "max_y": 96.0}})
    tf = TransformDict([HomogeneousMatrix((0.0, 0.0, 0.0), (1.0, 0.0, 0.0, 0.0), FrameID.BASE_LINK, FrameID.MAP)])
    mk = lambda u, x: _mk({"u": u, "l": "car", "x": x, "y": 5.0, "yaw": 0, "v": [1.0, 0.0], "w": 2.0, "len": 4.0}, 1000, "base_link", None)  # noqa: E731
    a, b, c, d = case["counts"]
    lists = [[], [], [], []]
    j = 0
    for kind, cnt in enumerate((a, b, c, d)):
        for i in range(cnt):
            e, g = mk(f"e{j}", 10.0 + 20.0 * j), mk(f"g{j}", 10.5 + 20.0 * j)
            if kind < 2:
                none = (case["tp_none"] if kind == 0 else case["fp_none"])[i]
                lists[kind].append(Res(e, None if none else g, transforms=tf))
            else:
                lists[kind].append(g)
            j += 1
    pf = SimpleNamespace(tp_object_results=lists[0], fp_object_results=lists[1], tn_objects=lists[2], fn_objects=lists[3])
    frame = SimpleNamespace(frame_name="7", pass_fail_result=pf, frame_ground_truth=SimpleNamespace(transforms=tf))
    try:
        an = PerceptionAnalyzer3D(cfg)
        an.add([frame])
        df = an.df
    except AttributeError as e:
        if "SimpleNamespace" in str(e):
            # the frame is a stub exposing only what add_frame reads today; a library that reads one more attribute of a frame
            # result cannot be observed through it: no verdict (histogram key unobservable:rows-stub)
            return {"unobservable": "rows-stub"}
        return {"err": type(e).__name__, "stage": "add"}
    except Exception as e:
        return {"err": type(e).__name__, "stage": "add"}
    return {"rows": _rows(df)}


def run_impl(case):
    """Only the calls the property is about produce `err` entries (the analyzer's constructor, add, df, num_*, the selection / analysis
    entry points, get_object_status); building the configuration, running the manager (other properties' ground) and reading the frames'
    public lists is set-up and propagates (run_check: infrastructure error, or 'the real code raised unexpectedly')."""
    if case.get("kind") == "area":
        return _run_area(case)
    if case.get("kind") == "rows":
        return _run_rows(case)
    from perception_eval.tool import PerceptionAnalyzer3D

    cfg, scenes = _evaluate(case)
    out = {"frames": [[_frame_lists(fr) for fr in sc] for sc in scenes]}
    try:
        an = PerceptionAnalyzer3D(cfg, num_area_division=case["division"])
    except Exception as e:
        out["err"] = type(e).__name__
        out["stage"] = "analyzer"
        return out
    try:
        for sc in scenes:
            an.add(sc)
        df = an.df
    except Exception as e:
        out["err"] = type(e).__name__
        out["stage"] = "add"
        return out
    out["areas"] = {"ur": [[float(a), float(b)] for a, b in an.upper_rights], "bl": [[float(a), float(b)] for a, b in an.bottom_lefts]}
    out["num_scene"] = an.num_scene
    out["num_frame"] = an.num_frame
    out["rows"] = _rows(df)
    num = {}
    for k, attr in (("gt", "num_ground_truth"), ("est", "num_estimation"), ("tp", "num_tp"), ("fp", "num_fp"), ("tn", "num_tn"), ("fn", "num_fn")):
        try:
            num[k] = int(getattr(an, attr))
        except Exception as e:
            num[k] = {"err": type(e).__name__}
    out["num"] = num
    out["analyses"] = [_analysis(an, sel, case["labels"]) for sel in case["sels"]]
    try:
        out["status"] = {"scenes": [_status(sc) for sc in scenes], "all": _status([f for sc in scenes for f in sc])}
    except Exception as e:
        out["status"] = {"err": type(e).__name__}
    # observed, not judged (GroundTruthStatus.get_status_rates / StatusRate.rate / get_scene_rates are not clauses of C19)
    try:
        from perception_eval.common.status import get_scene_rates

        out["status_rates"] = {"scenes": [_status_rates(sc) for sc in scenes], "all": _status_rates([f for sc in scenes for f in sc]),
                               "empty": [_rate(x) for x in get_scene_rates([])]}
    except Exception as e:
        out["status_rates"] = {"err": type(e).__name__}
    return out


# ----------------------------------------------------------------------------- model side

_EMPTY_RAISES = None
NUM_ATTRS = (("gt", "num_ground_truth"), ("est", "num_estimation"), ("tp", "num_tp"), ("fp", "num_fp"), ("tn", "num_tn"), ("fn", "num_fn"))


def _empty_raises():
    """does a num_* property of the analyzer under test raise on the initial empty table (finding N2)?  All six getters are probed; the
    model is told 'raises' when any of them does (a partial repair is accepted per getter in `compare`)."""
    global _EMPTY_RAISES
    if _EMPTY_RAISES is None:
        from perception_eval.tool import PerceptionAnalyzer3D

        case = {"task": "detection", "frame_id": "base_link", "labels": ["car"], "policy": "default",
                "range": {"kind": "xy", "max_x": 100.0, "max_y": 100.0}}
        an = PerceptionAnalyzer3D(_config(case))
        an.add([])
        flags = []
        for _k, attr in NUM_ATTRS:
            try:
                flags.append(not (int(getattr(an, attr)) == 0))
            except Exception:  # noqa: BLE001 - the probe asks exactly this
                flags.append(True)
        _EMPTY_RAISES = any(flags)
    return _EMPTY_RAISES


def _tau(k):
    """half-turns of the float yaw the real object is built with"""
    return Fraction(_yaw(k)) / Fraction(PI)


def _norm_k(k):
    """representative in (-16, 16] of a yaw given in sixteenths of a half-turn"""
    k = k % 32
    return k - 32 if k > 16 else k


def _mobj(o):
    return {"u": o["u"], "l": o["l"], "x": core.q(o["x"]), "y": core.q(o["y"]), "yaw": core.q(_tau(_norm_k(o["yaw"]))),
            "w": core.q(o["w"]), "len": core.q(o["len"]),
            "vx": None if o["v"] is None else core.q(o["v"][0]), "vy": None if o["v"] is None else core.q(o["v"][1])}


def _mraw(o, frame_id, ego):
    """the object AS GIVEN to the real code: the very floats of `_render` as exact rationals, the yaw of that frame in half-turns"""
    x, y, z, _yawf = _render(o, frame_id, ego)
    k = _norm_k(o["yaw"] + (ego[2] if frame_id == "map" else 0))
    return {"frame": "map" if frame_id == "map" else "base_link", "u": o["u"], "l": o["l"], "x": core.q(x), "y": core.q(y), "z": core.q(z),
            "yaw": core.q(_tau(k)), "w": core.q(o["w"]), "len": core.q(o["len"]),
            "vx": None if o["v"] is None else core.q(o["v"][0]), "vy": None if o["v"] is None else core.q(o["v"][1])}


def _mpose(frame_id, ego):
    """the frame's ego pose base_link -> map (identity for a base_link evaluation): rotation as the rationals of cos / sin, yaw in half-turns"""
    if frame_id != "map":
        return {"c": "1", "s": "0", "tau": "0", "x": "0", "y": "0", "z": "0"}
    a = _yaw(ego[2])
    return {"c": core.q(math.cos(a)), "s": core.q(math.sin(a)), "tau": core.q(_tau(_norm_k(ego[2]))), "x": core.q(ego[0]), "y": core.q(ego[1]),
            "z": core.q(ego[3] if len(ego) > 3 else 0.0)}


def _objs_of(fr):
    d = {}
    for o in fr["gts"] + fr["ests"]:
        d[o["u"]] = o
    return d


def _msel(sel):
    def lst(v):
        return None if v is None else (list(v) if isinstance(v, (list, tuple)) else [v])

    return {"labels": lst(sel.get("label")), "scenes": lst(sel.get("scene")), "frames": lst(sel.get("frame")),
            "areas": lst(sel.get("area")), "statuses": lst(sel.get("status")), "uuids": lst(sel.get("uuid")),
            "distance": None if sel.get("distance") is None else [core.q(sel["distance"][0]), core.q(sel["distance"][1])]}


def _is_f11(objs, l, g):
    """the inputs of finding F11: an FP result carries the ORDINARY ground truth g that the same frame also lists as FN"""
    return g is not None and objs[g]["l"] != FPL and g in l["fn"]


def _gt_dropped_pairs(case, out):
    """probe of the real table for the table-layout repair of F11 ("which row owns the ground truth", known_findings.json): the FP results of
    the signature's inputs whose row pair holds the estimate only -> {(scene, frame, estimate uuid)}"""
    rows = out.get("rows")
    if not isinstance(rows, list):
        return set()
    have = set(k for k in _row_keys(rows) if k is not None)
    dropped = set()
    for si, (sc_case, sc_out) in enumerate(zip(case["scenes"], out["frames"])):
        for fr, l in zip(sc_case, sc_out):
            objs = _objs_of(fr)
            for e, g in l["fp"]:
                if _is_f11(objs, l, g) and (si, l["n"], "FP", g, e) not in have and (si, l["n"], "FP", None, e) in have:
                    dropped.add((si, l["n"], e))
    return dropped


def _passfail_observable(out):
    return all(l.get("results") is not None for sc in out["frames"] for l in sc)


def model_requests(case, out):
    if case.get("kind") in ("area", "rows"):
        return []  # these inputs are judged by the oracle; their tie to the model is the table theorem
    if "frames" not in out or "rows" not in out:
        return []
    mx, my = _area_max(case)
    # F11 probed on the real table: where the (repaired) table keeps only the estimate in the FP row pair of an ordinary ground truth that
    # the frame also lists as FN, the model is handed that pair without its ground truth and follows the real layout
    dropped = _gt_dropped_pairs(case, out)
    with_pf = _passfail_observable(out)
    scenes = []
    pf_reqs = []
    for si, (sc_case, sc_out) in enumerate(zip(case["scenes"], out["frames"])):
        frames = []
        for fr, lists in zip(sc_case, sc_out):
            objs = _objs_of(fr)
            mo = lambda u: None if u is None else _mobj(objs[u])  # noqa: E731
            fp = [[mo(e), None if (si, lists["n"], e) in dropped else mo(g)] for e, g in lists["fp"]]
            frames.append({"n": lists["n"], "tp": [[mo(e), mo(g)] for e, g in lists["tp"]], "fp": fp,
                           "tn": [mo(u) for u in lists["tn"]], "fn": [mo(u) for u in lists["fn"]], "critical": [mo(u) for u in lists["critical"]]})
            if with_pf:
                pf_reqs.append({"op": "passfail", "n": lists["n"], "critical": [mo(u) for u in lists["critical"]],
                                "results": [{"est": mo(e), "gt": mo(g), "correct": c} for e, g, c in lists["results"]]})
        scenes.append(frames)
    req = {"op": "analyze", "empty_raises": _empty_raises(), "division": case["division"], "max_x": core.q(mx), "max_y": core.q(my), "labels": case["labels"],
           "scenes": scenes, "sels": [_msel(s) for s in case["sels"]]}
    # the same pass/fail lists with the objects AS GIVEN (base_link or map frame) and the frames' ego poses: the model transforms
    raw_scenes = []
    for si, (sc_case, sc_out) in enumerate(zip(case["scenes"], out["frames"])):
        frames = []
        for fr, lists in zip(sc_case, sc_out):
            objs = _objs_of(fr)
            ego = fr.get("ego") or [0.0, 0.0, 0]
            mr = lambda u: None if u is None else _mraw(objs[u], case["frame_id"], ego)  # noqa: E731
            frames.append({"ego": _mpose(case["frame_id"], ego), "n": lists["n"], "tp": [[mr(e), mr(g)] for e, g in lists["tp"]],
                           "fp": [[mr(e), None if (si, lists["n"], e) in dropped else mr(g)] for e, g in lists["fp"]],
                           "tn": [mr(u) for u in lists["tn"]], "fn": [mr(u) for u in lists["fn"]],
                           "critical": [mr(u) for u in lists["critical"]]})
        raw_scenes.append(frames)
    raw_req = {"op": "raw_rows", "division": case["division"], "max_x": core.q(mx), "max_y": core.q(my), "scenes": raw_scenes}
    return [req] + pf_reqs + [raw_req]


def _angle_close(a, b):
    d = (a - b) % (2 * PI)
    return min(d, 2 * PI - d) <= 1e-9


def _yaw_pi_pairs(case, out):
    """does some paired row have a yaw difference of exactly one half-turn (wrap boundary)?"""
    for sc_case, sc_out in zip(case["scenes"], out["frames"]):
        for fr, lists in zip(sc_case, sc_out):
            objs = _objs_of(fr)
            for e, g in lists["tp"] + lists["fp"]:
                if g is not None and abs(_norm_k(objs[g]["yaw"]) - _norm_k(objs[e]["yaw"])) == 16:
                    return True
    return False


def _on_boundary(case):
    """map-frame case with an object exactly on an area or distance boundary (float round trip may flip)"""
    if case["frame_id"] != "map":
        return False
    mx, my = _area_max(case)
    bx = {Fraction(mx) * s for s in (Fraction(1), Fraction(1, 3), Fraction(-1, 3), Fraction(-1))}
    by = {Fraction(my) * s for s in (Fraction(1), Fraction(1, 3), Fraction(-1, 3), Fraction(-1))}
    ds = set()
    for s in case["sels"]:
        if s.get("distance") is not None:
            ds |= {Fraction(s["distance"][0]) ** 2, Fraction(s["distance"][1]) ** 2}
    for sc in case["scenes"]:
        for fr in sc:
            for o in fr["gts"] + fr["ests"]:
                x, y = Fraction(o["x"]), Fraction(o["y"])
                if x in bx or y in by or (x * x + y * y) in ds:
                    return True
    return False


def _num_same(a, b):
    """two counts agree: same number, or both raised (the property names no exception class)"""
    if isinstance(a, dict) or isinstance(b, dict):
        return isinstance(a, dict) and isinstance(b, dict)
    return a == b


def _rate_close(v, w):
    return v is not None and core.close(v, core.unq(w))


def _cm_map(cm, labels):
    """a confusion matrix as a mapping (row label, column label) -> count, zero cells dropped: the text fixes no order of the labels"""
    if cm is None:
        return None
    if isinstance(labels, dict) or labels is None or len(labels) != len(cm):
        return {"shape": (len(cm), str(labels))}
    return {(labels[i], labels[j]): v for i, row in enumerate(cm) for j, v in enumerate(row) if v}


def _srt(l):
    return sorted(l, key=lambda x: json.dumps(x, sort_keys=True, default=str))


def compare(case, out, resps):
    """Correspondence real code <-> model on what the property observes.  Canonical on both sides where the text leaves a choice open (order and
    numbering of the row pairs, order of label indices, of status records, of pass/fail lists); exception kinds as 'raised vs returned';
    inverted distance ranges (outside the quantifier) are not compared.  On exactly the inputs of the listed findings the property-conform
    outcome is accepted next to the modelled (defective) one, so that a repair of F11 / N1 / N2 in the library is not a disagreement:
      F11 - table layout: probed in `model_requests` (the model is handed the real layout); ground-truth counts: the model's or 'every ground
            truth once'; rates whose denominator is such a count: the model's or any value in [0,1]; FN list of PassFailResult: with or without
            the ground truths an FP result carries; tallies of such ground truths: the model's or what the oracle's clause admits;
      N1  - per-label TP (and FP = false discovery) rate of a label met in a cross-label TP pair of the selection: the model's or any value in [0,1];
      N2  - num_* on a table built from zero items: raised or 0, per getter."""
    if not resps:
        return None
    r = resps[0]
    if out.get("unexpected") or "unobservable" in out:
        return "skip"
    if "err" in out or "err" in r:
        # raised vs returned (the property names no exception class); only the constructor's rejection of a bad division is modelled
        return None if ("err" in out) == ("err" in r) and out.get("stage") in (None, "analyzer") else f"impl {out.get('err')}@{out.get('stage')} != model {r.get('err')}"
    if _on_boundary(case):
        return "skip"
    # areas
    for k in ("ur", "bl"):
        a, b = out["areas"][k], r["areas"][k]
        if len(a) != len(b) or any(not core.close(p[0], core.unq(q[0])) or not core.close(p[1], core.unq(q[1])) for p, q in zip(a, b)):
            return f"area points {k}: impl {a} != model {b}"
    if r.get("area_error"):
        return "model: get_area_idx matched more than one area"
    # (num_scene / num_frame are not observables of the property - "PerceptionAnalyzer3D.df and num_* properties" are the counts of rows; the
    # scene / frame numbering is compared through the rows' columns)
    # rows: matched by identity (scene, frame, status, uuids) - neither order nor numbering of the pairs is part of the property
    rows = out["rows"]
    if isinstance(rows, dict):
        return f"the table does not consist of row pairs: {rows}"
    if len(rows) != len(r["rows"]):
        return f"table has {len(rows)} row pairs, model {len(r['rows'])}"
    ikeys = _row_keys(rows)
    mkeys = [_pair_key(b[1], b[2]) for b in r["rows"]]
    if None in ikeys or len(set(ikeys)) != len(ikeys):
        return f"row pairs of the table are not distinct items: {ikeys}"
    ipos = {k: j for j, k in enumerate(ikeys)}
    mkey_of = {b[0]: mk for b, mk in zip(r["rows"], mkeys)}  # the model's own numbering of its row pairs
    if set(ikeys) != set(mkeys):
        miss = [k for k in mkeys if k not in ipos]
        extra = [k for k in ikeys if k not in set(mkeys)]
        return f"row pairs (scene, frame, status, ground truth, estimate): model has {miss[:3]}, impl has {extra[:3]}"

    def cells(a, b, who):
        for side, ca, cb in (("ground_truth", a[2], b[1]), ("estimation", a[5], b[2])):
            if (ca is None) != (cb is None):
                return f"row pair {a[0]} {side}: impl {'NaN' if ca is None else ca['st']} vs {who} {'NaN' if cb is None else cb['st']}"
            if ca is None:
                continue
            for k in ("st", "u", "l", "area", "frame", "scene"):
                if ca[k] != cb[k]:
                    return f"row pair {a[0]} {side} column {k}: impl {ca[k]!r} != {who} {cb[k]!r}"
            if ca["x"] is None or ca["y"] is None or not core.close(ca["x"], core.unq(cb["x"])) or not core.close(ca["y"], core.unq(cb["y"])):
                return f"row pair {a[0]} {side} ego-frame position: impl ({ca['x']},{ca['y']}) != {who} ({float(core.unq(cb['x']))},{float(core.unq(cb['y']))})"
            if ca["yaw"] is None or not _angle_close(ca["yaw"], float(core.unq(cb["yaw"])) * PI):
                return f"row pair {a[0]} {side} ego-frame yaw: impl {ca['yaw']} != {who} {float(core.unq(cb['yaw'])) * PI}"
        return None

    for b, mk in zip(r["rows"], mkeys):
        d = cells(rows[ipos[mk]], b, "model")
        if d:
            return d
    # what the findings' signatures single out in this case
    items0 = _items(case, out)
    items_l, _row_of, _msgs = _match_rows(items0, rows)
    if items_l is None:
        return "the table is not a tabulation of the pass/fail lists: " + "; ".join(_msgs[:2])
    n_items = len(items0)
    keypos = {_item_key(it): k for k, it in enumerate(items_l)}
    has_f11 = any(it[5] for it in items0)
    frames = [l for sc in out["frames"] for l in sc]
    critical = sum(len(l["critical"]) for l in frames)

    def gt_alt(v, rows_gt):
        """the property-conform ground-truth count over ground-truth rows (scene, frame, uuid): every ground truth once"""
        return has_f11 and not isinstance(v, dict) and v == len(set(rows_gt))

    # counts
    for k in ("gt", "est", "tp", "fp", "tn", "fn"):
        v, w = out["num"][k], r["num"][k]
        if _num_same(v, w):
            continue
        if n_items == 0 and (isinstance(v, dict) or v == 0):
            continue  # N2's inputs: raised (modelled) or 0 (conform), per getter
        if k == "gt" and has_f11 and v == critical:
            continue  # F11's inputs: the conform count
        return f"num_{k}: impl {v} != model {w}"
    # analyses
    yaw_pi = _yaw_pi_pairs(case, out)
    msels = r.get("selections") or [None] * len(out["analyses"])
    for i, (a, b) in enumerate(zip(out["analyses"], r["analyses"])):
        sel = case["sels"][i]
        tag = f"selection {i} {sel}"
        if _inverted(sel):
            continue  # outside the quantifier
        if "err" in a or "err" in b:
            if ("err" in a) != ("err" in b):
                return f"{tag}: impl {a.get('err', 'ok')} != model {b.get('err', 'ok')}"
            continue
        # the selected sub-table itself: which pairs, counts over it, row-wise keyword counts
        ms = msels[i]
        sa = a.get("sel")
        K = None
        if ms is not None and sa is not None and "err" not in ms:
            if not sa["whole_pairs"]:
                return f"{tag}: the selected table splits a row pair (index {sa['index']})"
            got = [tuple(k) if k is not None else None for k in sa["keys"]]
            want = [mkey_of[j] for j in ms["index"]]
            if len(set(got)) != len(got) or set(got) != set(want):
                return f"{tag}: selected row pairs impl {_srt(got)} != model {_srt(want)}"
            K = sorted(keypos[k] for k in got)
            gt_rows_K = [(items_l[k][3], items_l[k][4], items_l[k][1]["u"]) for k in K if items_l[k][1] is not None]
            if "num" in sa:
                for key in ("gt", "est", "tp", "fp", "tn", "fn"):
                    v, w = sa["num"].get(key), ms["num"][key]
                    if not _num_same(v, w) and not (key == "gt" and gt_alt(v, gt_rows_K)):
                        return f"{tag}: counts over the selection impl {sa['num']} != model {ms['num']}"
            if "paired" in sa and not _num_same(sa["paired"], ms["paired"]):
                return f"{tag}: paired rows of the selection impl {sa['paired']} != model {ms['paired']}"
            if "rowwise" in sa:
                for key in ("gt", "est", "tp", "fp", "tn", "fn"):
                    v, w = sa["rowwise"].get(key), ms["rowwise"][key]
                    if not _num_same(v, w) and not (key == "gt" and gt_alt(v, _ref_rowwise(case, out, sel, items_l, _row_of)[1])):
                        return f"{tag}: row-wise keyword counts impl {sa['rowwise']} != model {ms['rowwise']}"
        if a.get("none") or b.get("none"):
            if bool(a.get("none")) != bool(b.get("none")):
                return f"{tag}: impl none={a.get('none')} model none={b.get('none')}"
            continue
        # rates, as a mapping label -> row (the order of the index is not part of the property)
        mr = {x[0]: x[1:] for x in b["ratio"]}
        if not set(mr) <= set(a["ratio"]):
            return f"{tag}: ratio labels impl {sorted(a['ratio'])} lack {sorted(set(mr) - set(a['ratio']))}"
        n1_labels, f11_labels = set(), set()
        if K is not None:
            for k in K:
                st, g, e = items_l[k][:3]
                if st == "TP" and g is not None and g["l"] != e["l"]:
                    n1_labels |= {g["l"], e["l"]}
            dup = {x for x in gt_rows_K if gt_rows_K.count(x) > 1}
            for k in K:
                g = items_l[k][1]
                if g is not None and (items_l[k][3], items_l[k][4], g["u"]) in dup:
                    f11_labels |= {"ALL", g["l"]}
        for l, ws in mr.items():
            for name, v, w in zip(("TP", "FP", "TN", "FN"), a["ratio"][l], ws):
                if _rate_close(v, w):
                    continue
                conform = v is not None and 0.0 <= v <= 1.0  # "rates lie in [0,1]"
                if conform and ((l in n1_labels and name in ("TP", "FP")) or (l in f11_labels and name in ("TP", "TN", "FN"))):
                    continue
                return f"{tag}: rate {l}/{name} impl {v} != model {w}"
        me = {x[0]: {c: s for c, s in x[1]} for x in b["error"]}
        for l, cols in a["error"].items():
            for c, s in cols.items():
                ms_ = me[l][c]
                if s == "absent" or (s is None) != (ms_ is None):
                    return f"{tag}: error {l}/{c} impl {s} vs model {ms_}"
                if s is None:
                    continue
                k = PI if c == "yaw" else 1.0
                ref = {"average": float(core.unq(ms_["average"])) * k, "rms": math.sqrt(float(core.unq(ms_["rms2"]))) * k,
                       "std": math.sqrt(float(core.unq(ms_["var"]))) * k, "max": float(core.unq(ms_["max"])) * k,
                       "min": float(core.unq(ms_["min"])) * k}
                # "the stated mean/RMS/max summaries": `std` and `min` are reported by the library and computed by the model, but are not
                # observables of the property - not compared
                for key in ("average", "rms", "max"):
                    if c == "yaw" and yaw_pi and key == "average":
                        continue
                    if s[key] is None or not core.close(s[key], ref[key], abs_=1e-9):
                        return f"{tag}: error {l}/{c}/{key} impl {s[key]} != model {ref[key]}"
        # confusion matrix as a mapping (row label, column label) -> count (after the C19-N3 fix extra labels are appended in order of first
        # occurrence: the property does not fix that order)
        mlabels = ms["cm_labels"] if (ms is not None and "cm_labels" in ms) else None
        if mlabels is None or b["cm"] is None or a["cm"] is None:
            if (a["cm"] is None) != (b["cm"] is None) or (mlabels is None and a["cm"] != b["cm"]):
                return f"{tag}: confusion matrix impl {a['cm']} != model {b['cm']}"
        elif _cm_map(a["cm"], a["cm_labels"]) != _cm_map(b["cm"], mlabels):
            return f"{tag}: confusion matrix impl {a['cm']} over {a['cm_labels']} != model {b['cm']} over {mlabels}"
    # get_object_status: records as a mapping uuid -> tallies (sorted frame numbers)
    if "err" in out["status"]:
        return f"get_object_status raised {out['status']['err']}"
    case_frames = [(si, fr, l) for si, (sc_case, sc_out) in enumerate(zip(case["scenes"], out["frames"])) for fr, l in zip(sc_case, sc_out)]
    sgroups = [(f"scene {si}", [(fr, l) for s2, fr, l in case_frames if s2 == si], out["status"]["scenes"][si], r["status"]["scenes"][si]) for si in range(len(case["scenes"]))]
    sgroups.append(("all scenes", [(fr, l) for _, fr, l in case_frames], out["status"]["all"], r["status"]["all"]))
    tallies_as_model = True
    for name, fl, got, mod in sgroups:
        gd, md = {s["uuid"]: s for s in got}, {s["uuid"]: s for s in mod}
        if len(gd) != len(got) or set(gd) != set(md):
            return f"get_object_status {name}: records impl {sorted(s['uuid'] for s in got)} != model {sorted(md)}"
        crit, given, extra = _tally_reference(fl)
        for u in gd:
            if all(sorted(gd[u][k]) == sorted(md[u][k]) for k in ("total", "tp", "fp", "tn", "fn")):
                continue
            tallies_as_model = False
            if u in extra and _tally_verdict(gd[u], crit.get(u, []), given.get(u, {}), extra[u]) in ("once", "f11"):
                continue  # F11's inputs: the listed double tally or "once per frame"
            return f"get_object_status {name}: {u} impl {gd[u]} != model {md[u]}"
    # GroundTruthStatus.get_status_rates / StatusRate.rate / get_scene_rates: OBSERVED (not clauses of C19).  Defined rates (count > 0) are
    # compared with the model as a mapping status -> rate; what a never-occurred status or an empty list yields is left open.
    sr = out.get("status_rates")
    if sr is not None and "status_rates" in r and "err" not in sr:
        groups = [(f"scene {i}", a, b, c, t) for i, (a, b, c, t) in enumerate(zip(sr["scenes"], r["status_rates"]["scenes"], r["scene_rates"]["scenes"], out["status"]["scenes"]))]
        groups.append(("all scenes", sr["all"], r["status_rates"]["all"], r["scene_rates"]["all"], out["status"]["all"]))
        for name, a, mrecs, mscene, tallies in groups:
            md = {x["uuid"]: x for x in mrecs}
            td = {t["uuid"]: t for t in tallies}
            sums = {"total": 0, "TP": 0, "FP": 0, "TN": 0, "FN": 0}
            for x in a["records"]:
                t = td.get(x["uuid"])
                if t is None or sorted(x["order"]) != ["FN", "FP", "TN", "TP"]:
                    return f"{name}: status rates {x['order']} of {x['uuid']} do not belong to a status record"
                sums["total"] += len(t["total"])
                for st, v in zip(x["order"], x["rates"]):
                    c = len(t[st.lower()])
                    sums[st] += c
                    if c == 0 or not t["total"]:
                        continue  # never occurred: inf today, left open
                    if tallies_as_model and x["uuid"] in md:
                        w = md[x["uuid"]]["rates"][("TP", "FP", "TN", "FN").index(st)]
                        ok = w != "inf" and v not in ("inf", "nan") and core.close(v, core.unq(w), abs_=1e-12)
                    else:  # (tallies of a repaired F11: the model's definition count / total on the real tallies)
                        w = c / len(t["total"])
                        ok = v not in ("inf", "nan") and abs(v - w) <= 1e-12
                    if not ok:
                        return f"{name}: status rate {x['uuid']}/{st} impl {v} != model {w}"
            if sums["total"] > 0:
                for j, st in enumerate(("TP", "FP", "TN", "FN")):
                    v = a["scene"][j]
                    if tallies_as_model and mscene != "inf":
                        ok = v not in ("inf", "nan") and core.close(v, core.unq(mscene[j]), abs_=1e-12)
                    else:
                        ok = v not in ("inf", "nan") and abs(v - sums[st] / sums["total"]) <= 1e-12
                    if not ok:
                        return f"{name}: scene rate {st} impl {v} != model {mscene if mscene == 'inf' else mscene[j]}"
    # PassFailResult.evaluate: the four lists as multisets; F11's inputs: the FN list with or without the ground truths an FP result carries
    k = 1
    if _passfail_observable(out):
        for (si, fr, lists) in case_frames:
            b = resps[k]
            k += 1
            objs = _objs_of(fr)
            for key in ("tp", "fp", "tn", "fn"):
                if _srt(lists[key]) == _srt(b[key]):
                    continue
                if key == "fn":
                    carried = [g for _, g in lists["fp"] if g is not None and objs[g]["l"] != FPL]
                    if carried and _srt(lists["fn"]) == _srt([u for u in b["fn"] if u not in carried]):
                        continue
                return f"pass/fail list {key} of frame {lists['n']}: impl {lists[key]} != model {b[key]}"
    # the table from the objects AS GIVEN (the model applies transform((frame, BASE_LINK), ...) itself): x, y, yaw, area, distance
    if k < len(resps) and "rows" in resps[k]:
        rr = resps[k]
        if rr.get("area_error"):
            return "model (raw objects): get_area_idx matched more than one area"
        rkeys = [_pair_key(b[1], b[2]) for b in rr["rows"]]
        if len(rr["rows"]) != len(rows) or set(rkeys) != set(ikeys):
            return f"table has row pairs {_srt(ikeys)[:4]}.. ({len(rows)}), model (raw objects) {_srt(rkeys)[:4]}.. ({len(rr['rows'])})"
        for b, d2, mk in zip(rr["rows"], rr["dist2"], rkeys):
            a = rows[ipos[mk]]
            d = cells(a, b, "model transform of the given object")
            if d:
                return d
            for side, ca, dd in (("ground_truth", a[2], d2[0]), ("estimation", a[5], d2[1])):
                if ca is not None and ca.get("dist") is not None and not core.close(ca["dist"], math.sqrt(float(core.unq(dd)))):
                    return f"row pair {a[0]} {side} distance: impl {ca['dist']} != model sqrt({dd})"
    return None


# ----------------------------------------------------------------------------- oracle (independent of the model)
#
# What the property text states, clause by clause (properties.jsonl, C19 `statement`), and what is deliberately NOT demanded:
#   "one ground-truth/estimate row pair per TP, FP, TN and FN item"       -> a bijection between the items of the frames' pass/fail lists and the
#        row pairs of the table, by identity (scene, frame, status, uuids).  The text fixes neither the ORDER of the pairs nor their NUMBERING,
#        so neither is demanded.
#   "with positions and yaw expressed in the ego frame"                     -> x, y within 1e-9, yaw within 1e-9 modulo a full turn.
#   "per-status counts equal the sizes of the frames' pass/fail lists, the estimate count equals the number of evaluated estimates and the
#    ground-truth count equals the number of critical ground-truth objects" -> num_* (F11: exact signature).
#   "per-object status tallies likewise record each ground truth once per frame" -> per uuid the tallied frames are the frames in which it is
#        critical, each entry under a status the lists give that ground truth in that frame (the text does not say under WHICH of them).
#   "Reported errors are the ground-truth-minus-estimate differences of paired rows (yaw wrapped to [-pi, pi]) with the stated mean/RMS/max
#    summaries"                                                             -> average, rms, max (not `min`, not `std`).
#   "rates lie in [0,1]"                                                   -> exactly that (N1: exact signature).
#   "the confusion matrix sums to the number of paired rows".
#   GroundTruthStatus.get_status_rates / StatusRate.rate / get_scene_rates are observed and compared with the model, never judged.


def _wrap(d):
    while d > PI:
        d -= 2 * PI
    while d < -PI:
        d += 2 * PI
    return d


def _summ(errs):
    n = len(errs)
    if n == 0:
        return None
    avg = math.fsum(errs) / n
    return {"average": avg, "rms": math.sqrt(math.fsum(e * e for e in errs) / n), "max": max(abs(e) for e in errs)}


def _items(case, out):
    """the row pairs the frames' pass/fail lists ask for, in a canonical order (TP, FP, TN, FN per frame - an order of the HARNESS, not demanded
    of the table): (status, gt object | None, estimate | None, scene, frame, is this FP result an input of finding F11?)"""
    items = []
    for si, (sc_case, sc_out) in enumerate(zip(case["scenes"], out["frames"])):
        for fr, l in zip(sc_case, sc_out):
            objs = _objs_of(fr)
            for e, g in l["tp"]:
                items.append(("TP", None if g is None else objs[g], objs[e], si, l["n"], False))
            for e, g in l["fp"]:
                items.append(("FP", None if g is None else objs[g], objs[e], si, l["n"], _is_f11(objs, l, g)))
            for g in l["tn"]:
                items.append(("TN", objs[g], None, si, l["n"], False))
            for g in l["fn"]:
                items.append(("FN", objs[g], None, si, l["n"], False))
    return items


def _item_key(it, with_gt=True):
    st, g, e, si, n = it[:5]
    return (si, n, st, None if (g is None or not with_gt) else g["u"], None if e is None else e["u"])


def _match_rows(items, rows):
    """the bijection items <-> row pairs by identity.  For an input of F11 (an FP result carrying an ordinary ground truth the frame also
    lists as FN) the row pair may hold the estimate only: 'which row owns the ground truth' is the open design decision named in
    known_findings.json; the ground truth then lives in its FN pair.  -> (effective items, row index per item, messages)"""
    msgs = []
    if isinstance(rows, dict):
        return None, None, [f"the table does not consist of ground_truth/estimation row pairs: {rows}"]
    keys = _row_keys(rows)
    pos = {}
    for j, k in enumerate(keys):
        if k is None:
            msgs.append(f"row pair {rows[j][0]} holds no object at all")
        elif k in pos:
            msgs.append(f"two row pairs for {k}")
        else:
            pos[k] = j
    if len(rows) != len(items):
        msgs.append(f"table has {len(rows)} row pairs for {len(items)} items")
    eff, row_of = [], []
    for it in items:
        j = pos.get(_item_key(it))
        if j is None and it[5] and _item_key(it, False) in pos:
            j = pos[_item_key(it, False)]
            it = (it[0], None, it[2], it[3], it[4], it[5])
        if j is None:
            msgs.append(f"no row pair for the {it[0]} item (scene {it[3]}, frame {it[4]}: ground truth {None if it[1] is None else it[1]['u']}, "
                        f"estimate {None if it[2] is None else it[2]['u']})")
        eff.append(it)
        row_of.append(j)
    if msgs:
        return None, None, msgs
    return eff, row_of, []


def _vals(v):
    return list(v) if isinstance(v, (list, tuple)) else [v]


def _dist2(o):
    return Fraction(o["x"]) ** 2 + Fraction(o["y"]) ** 2


def _in_range(o, dist, map_frame):
    """does the ego-frame distance of the object lie in [d0, d1)?  True / False / None = too close to a bound for the
    floats of the real code to be trusted (map frame: positions go through a float round trip)"""
    d0, d1 = Fraction(dist[0]), Fraction(dist[1])
    d2 = _dist2(o)
    r = math.sqrt(d2)
    for b in (d0, d1):
        if b >= 0:
            exact = d2 == b * b
            if (exact and map_frame) or (not exact and abs(r - float(b)) < (1e-6 if map_frame else 1e-9)):
                return None
    return (d0 <= 0 or d0 * d0 <= d2) and (d1 > 0 and d2 < d1 * d1)


def _row_area(out, j):
    """the area column of row pair j of the real table (the estimate's, else the ground truth's)"""
    row = out["rows"][j]
    c = row[5] if row[5] is not None else row[2]
    return None if c is None else c["area"]


def _key_hit(key, vals, st, o, si, n, area):
    """does ONE row (object o of an item with status st in scene si, frame n, area) carry one of the values of a keyword?"""
    if key == "label":
        return o["l"] in vals
    if key == "uuid":
        return o["u"] in vals
    if key == "status":
        return st in vals
    if key == "scene":
        return si in vals
    if key == "frame":
        return n in vals
    if key == "area":
        return area is not None and area in vals
    raise KeyError(key)


def _ref_select(case, out, sel, items, row_of):
    """the documented pair predicate, evaluated on the generated scene: a pair is selected iff every given keyword is carried
    by SOME row of the pair and (distance given) SOME row lies in [d0, d1) -> (items surely selected, items undecidable)"""
    kw = _sel_kwargs(sel)
    dist = kw.pop("distance", None)
    map_frame = case["frame_id"] == "map"
    sure, unsure = [], []
    for k, (st, g, e, si, n, _f11) in enumerate(items):
        cells = [o for o in (g, e) if o is not None]
        area = _row_area(out, row_of[k])
        if not all(any(_key_hit(key, _vals(v), st, o, si, n, area) for o in cells) for key, v in kw.items()):
            continue
        if dist is None:
            sure.append(k)
            continue
        states = [_in_range(o, dist, map_frame) for o in cells]
        if any(x is True for x in states):
            sure.append(k)
        elif any(x is None for x in states):
            unsure.append(k)
    return sure, unsure


def _ref_rowwise(case, out, sel, items, row_of):
    """get_num_*(**kwargs): the ROWS (not pairs) that carry every keyword; `gt_rows` = the ground-truth rows among them as (scene, frame, uuid)"""
    kw = _sel_kwargs(sel)
    kw.pop("distance", None)
    cnt = {"est": 0, "tp": 0, "fp": 0, "tn": 0, "fn": 0}
    gt_rows = []
    for k, (st, g, e, si, n, _f11) in enumerate(items):
        area = _row_area(out, row_of[k])
        if e is not None and all(_key_hit(key, _vals(v), st, e, si, n, area) for key, v in kw.items()):
            cnt["est"] += 1
            if st in ("TP", "FP"):
                cnt[st.lower()] += 1
        if g is not None and all(_key_hit(key, _vals(v), st, g, si, n, area) for key, v in kw.items()):
            gt_rows.append((si, n, g["u"]))
            if st in ("TN", "FN"):
                cnt[st.lower()] += 1
    return cnt, gt_rows


def _describe(items, k):
    st, g, e, si, n = items[k][:5]
    f = lambda o: "-" if o is None else f"{o['u']}@{math.sqrt(_dist2(o)):.4f}m/{o['l']}"  # noqa: E731
    return f"pair {k} ({st}, scene {si}, frame {n}: ground truth {f(g)}, estimate {f(e)})"


def _inverted(sel):
    """a distance 'range' with min >= max is not a distance selection (the quantifier: "label/scene/area/distance selections"): no claim"""
    d = sel.get("distance")
    return d is not None and d[0] >= d[1]


def _gt_count_fail(fails, tag_msg, v, rows_gt):
    """ground-truth count v over ground-truth rows `rows_gt` [(scene, frame, uuid)]: conform = every ground truth once; exactly F11 = every
    ground-truth ROW once, the surplus being ground truths tabulated in an FP pair and again as FN"""
    distinct = len(set(rows_gt))
    if v == distinct:
        return
    fails.append(("gt_count", v == len(rows_gt) and len(rows_gt) > distinct,
                  f"{tag_msg} = {v}, distinct ground truths = {distinct} (ground-truth rows: {len(rows_gt)})"))


def _area_claim(areas, objs, a):
    """the `area` of a row pair against the analyzer's own published rectangles (upper_rights / bottom_lefts): a pair with area a has a row in
    the CLOSED rectangle a; a pair without area does not have all its rows strictly inside rectangles (which row decides, and to whom a grid
    line belongs, is left open; positions within 1e-6 of a grid line: no claim either way)"""
    tol = 1e-6
    ur, bl = areas["ur"], areas["bl"]

    def inside(i, o, slack):
        x, y = float(o["x"]), float(o["y"])
        return bl[i][0] - slack <= x <= ur[i][0] + slack and ur[i][1] - slack <= y <= bl[i][1] + slack

    where = ", ".join(f"{o['u']} at ({o['x']}, {o['y']})" for o in objs)
    if a is not None:
        if not (0 <= a < len(ur)):
            return f"area {a} is not one of the {len(ur)} areas"
        if not any(inside(a, o, tol) for o in objs):
            return f"area {a} = [{bl[a][0]}, {ur[a][0]}] x [{ur[a][1]}, {bl[a][1]}] contains no row of the pair ({where}, ego frame)"
        return None
    if objs and all(any(inside(i, o, -tol) for i in range(len(ur))) for o in objs):
        return f"no area although every row of the pair lies strictly inside an area ({where}, ego frame)"
    return None


def _check(case, out):
    """the property statement on the real outputs -> list of (tag, info, message)"""
    fails = []
    if out.get("unexpected") or "unobservable" in out:
        return []  # not an output of the calls under test (run_check reports an escaped exception itself)
    if "err" in out:
        return [("exception", None, f"{out.get('stage')} raised {out['err']}")]
    frames = [(si, fr, lists) for si, (sc_case, sc_out) in enumerate(zip(case["scenes"], out["frames"])) for fr, lists in zip(sc_case, sc_out)]
    items0 = _items(case, out)
    items = len(items0)
    map_frame = case["frame_id"] == "map"
    # --- one row pair per TP/FP/TN/FN item ("one ground-truth/estimate row pair per TP, FP, TN and FN item"), in ego-frame coordinates
    rows = out["rows"]
    items_l, row_of, msgs = _match_rows(items0, rows)
    for m in msgs[:4]:
        fails.append(("layout", None, m))
    layout_ok = items_l is not None
    if layout_ok:
        for k, (st, g, e, si, n, _f11) in enumerate(items_l):
            row = rows[row_of[k]]
            for side, o, cell in (("ground_truth", g, row[2]), ("estimation", e, row[5])):
                if o is None:
                    continue  # (the identity of the pair already says this side is the all-None row)
                if cell["st"] != st or cell["u"] != o["u"] or cell["l"] != o["l"] or cell["frame"] != n or cell["scene"] != si:
                    fails.append(("layout", None, f"row pair {row[0]} {side}: expected {st} {o['u']} {o['l']} frame {n} scene {si}, got {cell}"))
                if cell["x"] is None or cell["y"] is None or cell["yaw"] is None or not (
                        core.close(cell["x"], o["x"]) and core.close(cell["y"], o["y"]) and _angle_close(cell["yaw"], _yaw(o["yaw"]))):
                    fails.append(("ego", None, f"row pair {row[0]} {side} {o['u']}: ego-frame pose should be ({o['x']},{o['y']},{_yaw(_norm_k(o['yaw']))}), got ({cell['x']},{cell['y']},{cell['yaw']})"))
            if "areas" in out:
                m = _area_claim(out["areas"], [o for o in (g, e) if o is not None], _row_area(out, row_of[k]))
                if m:
                    fails.append(("area", None, f"row pair {row[0]}: {m}"))
    # --- counts
    num = out["num"]
    want = {"tp": sum(len(l["tp"]) for _, _, l in frames), "fp": sum(len(l["fp"]) for _, _, l in frames),
            "tn": sum(len(l["tn"]) for _, _, l in frames), "fn": sum(len(l["fn"]) for _, _, l in frames),
            "est": sum(l.get("n_results", len(l["results"] or [])) for _, _, l in frames), "gt": sum(len(l["critical"]) for _, _, l in frames)}
    # ground truths tabulated twice (the characterisation of F11): FP pairs that hold an ordinary ground truth the frame also lists as FN
    if layout_ok:
        n_dup = sum(1 for it in items_l if it[0] == "FP" and it[5] and it[1] is not None)
    else:
        n_dup = sum(1 for it in items0 if it[0] == "FP" and it[5])
    for k in ("tp", "fp", "tn", "fn", "est", "gt"):
        v = num[k]
        if isinstance(v, dict):
            if items == 0:
                fails.append(("empty_counts", v["err"], f"num_{k} raised {v['err']} on an empty table (should be 0)"))
            else:
                fails.append(("exception", None, f"num_{k} raised {v['err']}"))
        elif v != want[k]:
            if k == "gt":
                fails.append(("gt_count", v - want[k] == n_dup and n_dup > 0,
                              f"num_ground_truth = {v}, critical ground truths = {want[k]} (ground truths held by an FP pair and again by an FN pair: {n_dup})"))
            else:
                fails.append(("counts", None, f"num_{k} = {v}, pass/fail lists give {want[k]}"))
    # --- analyses: every selection must be exactly the row pairs satisfying the documented predicate, and the statement
    #     about counts / errors / confusion matrix must hold for the selected sub-table
    keypos = {_item_key(it): k for k, it in enumerate(items_l)} if layout_ok else {}
    for i, (sel, a) in enumerate(zip(case["sels"], out["analyses"])):
        tag = f"selection {i} {sel}"
        if _inverted(sel):
            continue  # outside the quantifier: whether and how it is rejected is not the property's
        if "err" in a:
            fails.append(("exception", None, f"{tag}: raised {a['err']}"))
            continue
        sa = a.get("sel")
        K = None
        if layout_ok and sa is not None:
            sure, unsure = _ref_select(case, out, sel, items_l, row_of)
            if not sa["whole_pairs"]:
                fails.append(("selection", None, f"{tag}: the selected table splits a row pair (rows of pairs {sa['index']})"))
            else:
                got = [keypos.get(tuple(k)) if k is not None else None for k in sa["keys"]]
                if None in got or len(set(got)) != len(got):
                    fails.append(("selection", None, f"{tag}: the selected table holds row pairs {sa['keys']} that are not (distinct) row pairs of the table"))
                elif not set(sure) <= set(got) or not set(got) <= set(sure) | set(unsure):
                    # (the ORDER of the selected pairs is not demanded)
                    extra = sorted(set(got) - set(sure) - set(unsure))
                    missing = sorted(set(sure) - set(got))
                    msg = f"{tag}: selected row pairs {sorted(got)}, the pairs satisfying the selection are {sure}"
                    if extra:
                        msg += f"; wrongly kept: {_describe(items_l, extra[0])}"
                    if missing:
                        msg += f"; wrongly dropped: {_describe(items_l, missing[0])}"
                    fails.append(("selection", None, msg))
                else:
                    K = sorted(got)
            if a.get("none") and sure:
                fails.append(("selection", None, f"{tag}: nothing to analyse although {len(sure)} row pairs satisfy the selection"))
            if K is not None and not a.get("none") and not K:
                fails.append(("selection", None, f"{tag}: a result is reported although no row pair is selected"))
            if "rowwise" in sa:
                want_rw, gt_rows = _ref_rowwise(case, out, sel, items_l, row_of)
                for key, w in want_rw.items():
                    v = sa["rowwise"][key]
                    if isinstance(v, dict):
                        fails.append(("exception", None, f"{tag}: get_num_{key}(**selection) raised {v['err']}"))
                    elif v != w:
                        fails.append(("sel_counts", None, f"{tag}: get_num_{key}(**selection) = {v}, the pass/fail lists hold {w} such rows"))
                v = sa["rowwise"].get("gt")
                if isinstance(v, dict):
                    fails.append(("exception", None, f"{tag}: get_num_ground_truth(**selection) raised {v['err']}"))
                elif v is not None:
                    _gt_count_fail(fails, f"{tag}: get_num_ground_truth(**selection)", v, gt_rows)
        if K is not None and "num" in sa:
            sts = [items_l[k][0] for k in K]
            want_n = {"tp": sts.count("TP"), "fp": sts.count("FP"), "tn": sts.count("TN"), "fn": sts.count("FN")}
            want_n["est"] = want_n["tp"] + want_n["fp"]
            for key, w in want_n.items():
                v = sa["num"][key]
                if isinstance(v, dict):
                    fails.append(("exception", None, f"{tag}: get_num_{key}(df=selection) raised {v['err']}"))
                elif v != w:
                    fails.append(("sel_counts", None, f"{tag}: {key} count over the selection = {v}, the selected items of the pass/fail lists give {w}"))
            v = sa["num"].get("gt")
            if isinstance(v, dict):
                fails.append(("exception", None, f"{tag}: get_num_ground_truth(df=selection) raised {v['err']}"))
            elif v is not None:
                _gt_count_fail(fails, f"{tag}: ground-truth count over the selection", v,
                               [(items_l[k][3], items_l[k][4], items_l[k][1]["u"]) for k in K if items_l[k][1] is not None])
            pw = sum(1 for k in K if items_l[k][1] is not None and items_l[k][2] is not None)
            if sa.get("paired") != pw:
                fails.append(("sel_counts", None, f"{tag}: get_pair_results gives {sa.get('paired')} paired rows, the selected items {pw}"))
        if a.get("none"):
            if not _sel_kwargs(sel) and items > 0:
                fails.append(("layout", None, f"{tag}: nothing to analyse although the table has {items} items"))
            continue
        # "rates lie in [0,1]"
        for l, vals in a["ratio"].items():
            for name, v in zip(("TP", "FP", "TN", "FN"), vals):
                if v is None or not (0.0 <= v <= 1.0):
                    fails.append(("rates", (i, l, name, v, _n1_exact(items_l, K, l, name, v)), f"{tag}: rate {l}/{name} = {v} outside [0,1]"))
        # "the confusion matrix sums to the number of paired rows"
        if a["cm"] is None:
            if a["paired_rows"]:
                fails.append(("cm_sum", None, f"{tag}: no confusion matrix although {a['paired_rows']} rows are paired"))
        else:
            tot = sum(sum(r) for r in a["cm"])
            if a["paired_rows"] is not None and tot != a["paired_rows"]:
                fails.append(("cm_sum", None, f"{tag}: confusion matrix sums to {tot}, paired rows {a['paired_rows']}"))
            if isinstance(a["cm_labels"], dict) or len(a["cm"]) != len(a["cm_labels"]) or any(len(r) != len(a["cm_labels"]) for r in a["cm"]):
                fails.append(("cm_sum", None, f"{tag}: confusion matrix is not square over its index {a['cm_labels']}"))
        # "(yaw wrapped to [-pi, pi])"
        for l, cols in a["error"].items():
            y = cols["yaw"]
            if isinstance(y, dict) and y["max"] is not None and y["max"] > PI + 1e-9:
                fails.append(("yaw_range", None, f"{tag}: yaw error {l} max {y['max']} > pi"))
        # reference recomputation from the generated scene, on the selected items
        if K is not None:
            pairs = [(items_l[k][1], items_l[k][2]) for k in K if items_l[k][1] is not None and items_l[k][2] is not None]
            tot_pairs = len(pairs)
            if a["paired_rows"] != tot_pairs or (a["cm"] is not None and sum(sum(r) for r in a["cm"]) != tot_pairs) or (a["cm"] is None and tot_pairs):
                fails.append(("cm_sum", None, f"{tag}: paired rows {a['paired_rows']} / matrix total, the selected items hold {tot_pairs} paired results"))
            for lab in ["ALL"] + case["labels"]:
                ps = [p for p in pairs if lab == "ALL" or p[0]["l"] == lab]
                for c in COLS:
                    if c in ("x", "y"):
                        errs = [g[c] - e[c] for g, e in ps]
                    elif c == "yaw":
                        errs = [_wrap(_yaw(_norm_k(g["yaw"])) - _yaw(_norm_k(e["yaw"]))) for g, e in ps]
                    elif c == "length":
                        errs = [g["len"] - e["len"] for g, e in ps]
                    elif c == "width":
                        errs = [g["w"] - e["w"] for g, e in ps]
                    else:
                        j = 0 if c == "vx" else 1
                        errs = [g["v"][j] - e["v"][j] for g, e in ps if g["v"] is not None and e["v"] is not None]
                    ref = _summ(errs)
                    got = a["error"][lab][c]
                    if got == "absent":
                        fails.append(("error", None, f"{tag}: no error summary reported for {lab}/{c}"))
                    elif (ref is None) != (got is None):
                        fails.append(("error", None, f"{tag}: error {lab}/{c}: expected {ref}, got {got}"))
                    elif ref is not None:
                        # "with the stated mean/RMS/max summaries": average, rms, max (`min` and `std` are not clauses)
                        keys = ("rms", "max") if (c == "yaw" and any(abs(abs(x) - PI) < 1e-9 for x in errs)) else ("average", "rms", "max")
                        for key in keys:
                            if got[key] is None or not core.close(got[key], ref[key]):
                                fails.append(("error", None, f"{tag}: error {lab}/{c}/{key} = {got[key]}, GT - estimate gives {ref[key]}"))
    # --- per-object tallies: "per-object status tallies likewise record each ground truth once per frame"
    st = out["status"]
    if "err" in st:
        fails.append(("exception", None, f"get_object_status raised {st['err']}"))
    else:
        groups = [(f"scene {si}", [(fr, l) for s2, fr, l in frames if s2 == si], st["scenes"][si]) for si in range(len(case["scenes"]))]
        groups.append(("all scenes", [(fr, l) for _, fr, l in frames], st["all"]))
        for name, fl, got in groups:
            crit, given, extra = _tally_reference(fl)
            gotd = {s["uuid"]: s for s in got}
            if len(gotd) != len(got):
                fails.append(("status_once", False, f"{name}: a uuid has two status records"))
            if set(gotd) != set(crit) | set(given):
                fails.append(("status_once", False, f"{name}: status records for {sorted(gotd)} but ground truths {sorted(set(crit) | set(given))}"))
                continue
            for u in sorted(gotd):
                verdict = _tally_verdict(gotd[u], crit.get(u, []), given.get(u, {}), extra.get(u, []))
                if verdict != "once":
                    s = gotd[u]
                    fails.append(("status_once", verdict == "f11", f"{name}: ground truth {u} tallied total={s['total']} tp={s['tp']} fp={s['fp']} tn={s['tn']} fn={s['fn']}, critical in frames {crit.get(u, [])}"))
    return fails


def _tally_reference(fl):
    """per uuid: the frames in which it is critical; the (status -> frames) the pass/fail lists give it; the frames of finding F11 (an FP
    result carries it as an ordinary ground truth that the frame also lists as FN)"""
    crit, given, extra = {}, {}, {}
    for fr, l in fl:
        objs = _objs_of(fr)
        for key, us in (("tp", [g for _, g in l["tp"]]), ("fp", [g for _, g in l["fp"] if g is not None]), ("tn", l["tn"]), ("fn", l["fn"])):
            for u in us:
                if u is not None:
                    given.setdefault(u, {"tp": [], "fp": [], "tn": [], "fn": []})[key].append(l["n"])
        for u in l["critical"]:
            crit.setdefault(u, []).append(l["n"])
        for e, g in l["fp"]:
            if _is_f11(objs, l, g):
                extra.setdefault(g, []).append(l["n"])
    return crit, given, extra


def _sub_multiset(a, b):
    b = list(b)
    for x in a:
        if x in b:
            b.remove(x)
        else:
            return False
    return True


def _tally_verdict(s, crit, given, extra):
    """'once'  = the property's clause: the tallied frames are exactly the frames in which the ground truth is critical, the four status
                 lists partition them, and every entry stands under a status the pass/fail lists give this ground truth in that frame
                 (the text does not say under which of them a ground truth carried by a failing estimate is to be tallied);
       'f11'   = exactly the listed deviation: every status the lists give is tallied, i.e. one extra (total, FP) entry per F11 frame;
       'other' = anything else"""
    g = {k: given.get(k, []) for k in ("tp", "fp", "tn", "fn")}
    parts = sorted(s["tp"] + s["fp"] + s["tn"] + s["fn"])
    if sorted(s["total"]) == sorted(crit) and parts == sorted(s["total"]) and all(_sub_multiset(s[k], g[k]) for k in g):
        return "once"
    if extra and sorted(s["total"]) == sorted(crit + extra) and all(sorted(s[k]) == sorted(g[k]) for k in g) and parts == sorted(s["total"]):
        return "f11"
    return "other"


def _n1_exact(items_l, K, lab, name, v):
    """a rate failure that is exactly N1 (known_findings.json: "per-label TP rate = #TP estimates with that EST label / #ground-truth rows
    with that GT label ... exceeds 1 when TP pairs have different labels"): a per-label TP rate above one whose VALUE is that quotient over the
    selected row pairs K, with a TP pair INSIDE K whose estimate carries the label while its ground truth carries another"""
    if items_l is None or K is None or lab == "ALL" or name != "TP" or v is None or not v > 1.0:
        return False
    tp = sum(1 for k in K if items_l[k][0] == "TP" and items_l[k][2]["l"] == lab)
    gt = sum(1 for k in K if items_l[k][1] is not None and items_l[k][1]["l"] == lab)
    witness = any(items_l[k][0] == "TP" and items_l[k][2]["l"] == lab and items_l[k][1] is not None and items_l[k][1]["l"] != lab for k in K)
    return witness and gt > 0 and abs(v - tp / gt) <= 1e-12


def _oracle_area(case, out):
    """the analyzer must be able to tabulate an item at ANY ego-frame position: get_area_idx never raises; a position strictly inside a cell
    of the grid gets that cell; on a grid line the text leaves open whether the position belongs to an adjacent cell or to none; strictly
    outside the field it belongs to none"""
    x, y = Fraction(case["x"]), Fraction(case["y"])
    where = f"division {case['division']}, max ({case['max_x']}, {case['max_y']}), ego-frame position ({case['x']}, {case['y']})"
    if out.get("unexpected"):
        return None
    if "err" in out:
        return f"{out.get('stage')} raised {out['err']} ({where}): the analyzer cannot tabulate an item there"
    ur, bl = out["areas"]["ur"], out["areas"]["bl"]
    inside = [i for i, (u, b) in enumerate(zip(ur, bl)) if Fraction(b[0]) < x < Fraction(u[0]) and Fraction(u[1]) < y < Fraction(b[1])]
    closed = [i for i, (u, b) in enumerate(zip(ur, bl)) if Fraction(b[0]) <= x <= Fraction(u[0]) and Fraction(u[1]) <= y <= Fraction(b[1])]
    # independent reference: the thirds of [-max, max] (exact), only when the bounds are thirds-exact in floats
    mx, my = Fraction(case["max_x"]), Fraction(case["max_y"])
    nx = 1 if case["division"] == 1 else 3
    ny = 3 if case["division"] == 9 else 1
    in_x = any(-mx + 2 * mx * k / nx < x < -mx + 2 * mx * (k + 1) / nx for k in range(nx))
    in_y = any(-my + 2 * my * k / ny < y < -my + 2 * my * (k + 1) / ny for k in range(ny))
    a = out["area"]
    if in_x and in_y:
        if a is None:
            return f"get_area_idx = None although the position lies strictly inside a cell ({where})"
        if inside != [a]:
            return f"get_area_idx = {a}, but the rectangles of the grid strictly containing the position are {inside} ({where})"
        return None
    if a is not None and a not in closed:
        return f"get_area_idx = {a} although the position lies outside that rectangle ({where})"
    return None


def _oracle_rows(case, out):
    """one row pair per TP, FP, TN, FN item (any order, any numbering); TP / FP: (ground-truth row or the all-None row, estimation row) with
    the list's status; TN / FN: (ground-truth row, all-None row)"""
    if out.get("unexpected") or "unobservable" in out:
        return None
    if "err" in out:
        return f"{out.get('stage')} raised {out['err']} for a frame with counts {case['counts']}"
    rows = out["rows"]
    a, b, c, d = case["counts"]
    exp = []
    j = 0
    for kind, cnt in enumerate((a, b, c, d)):
        for i in range(cnt):
            st = ("TP", "FP", "TN", "FN")[kind]
            if kind < 2:
                none = (case["tp_none"] if kind == 0 else case["fp_none"])[i]
                exp.append((0, 7, st, None if none else f"g{j}", f"e{j}"))
            else:
                exp.append((0, 7, st, f"g{j}", None))
            j += 1
    if isinstance(rows, dict) or len(rows) != len(exp):
        return f"table has {rows if isinstance(rows, dict) else len(rows)} row pairs for {len(exp)} items (counts {case['counts']})"
    got = _row_keys(rows)
    # an FP result carrying a ground truth: the pair may hold the estimate only ("which row owns the ground truth" is the open design
    # decision of finding F11; the synthetic frame has no FN twin to look at)
    exp = [(k[0], k[1], k[2], None, k[4]) if (k not in got and k[2] == "FP" and k[3] is not None and (k[0], k[1], k[2], None, k[4]) in got) else k for k in exp]
    if sorted(got, key=str) != sorted(exp, key=str):
        missing = [k for k in exp if k not in got]
        extra = [k for k in got if k not in exp]
        return (f"row pairs (scene, frame, status, ground truth, estimate): missing {missing[:3]}, unexpected {extra[:3]} "
                f"(counts {case['counts']}, tp_none {case['tp_none']}, fp_none {case['fp_none']})")
    for row in rows:
        for cell in (row[2], row[5]):
            if cell is not None and (cell["frame"] != 7 or cell["scene"] != 0 or cell["st"] != _pair_key(row[2], row[5])[2]):
                return f"row pair {row[0]}: frame/scene/status {cell['frame']}/{cell['scene']}/{cell['st']}, expected 7/0/{_pair_key(row[2], row[5])[2]}"
    return None


def _explained(f):
    return (f[0] in ("gt_count", "status_once") and f[1] is True) or (f[0] == "empty_counts" and f[1] == "TypeError") or (f[0] == "rates" and f[1][4])


def oracle(case, out):
    if case.get("kind") == "area":
        return _oracle_area(case, out)
    if case.get("kind") == "rows":
        return _oracle_rows(case, out)
    fails = _check(case, out)
    if not fails:
        return None
    # clauses that a listed finding explains go last, so that a new violation is named first
    fails = [f for f in fails if not _explained(f)] + [f for f in fails if _explained(f)]
    return "; ".join(m for _, _, m in fails[:6]) + (f" (+{len(fails) - 6} more)" if len(fails) > 6 else "")


def known_finding(case, out, failure):
    """only ids of kind "known" in known_findings.json (F11, N1, N2), and only when EVERY failing clause is exactly a listed deviation"""
    if case.get("kind") in ("area", "rows"):
        return None
    fails = _check(case, out)
    if not fails:
        return None
    ids = []
    for tag, info, _ in fails:
        if tag in ("gt_count", "status_once") and info is True:
            ids.append(F11)
        elif tag == "rates" and info[4]:
            a = out["analyses"][info[0]]
            if all(x is not None and 0.0 <= x <= 1.0 for x in a["ratio"].get("ALL", [None])):
                ids.append(N1)
            else:
                return None
        elif tag == "empty_counts" and info == "TypeError":
            ids.append(N2)
        else:
            return None  # some clause fails in a way no listed finding explains
    for k in (F11, N1, N2):
        if k in ids:
            return k
    return None


# ----------------------------------------------------------------------------- generation

GRID = [(-72, -36), (-72, 0), (-72, 36), (-48, -24), (-48, 12), (-24, -36), (-24, 0), (-24, 36), (0, -24), (0, 24),
        (12, -42), (12, 6), (24, -36), (24, 36), (36, 0), (48, -24), (48, 12), (60, 36), (72, -36), (72, 0), (72, 36),
        (32, 16), (-32, -16), (32, -16), (64, 16), (-64, 16), (16, 32), (40, -40)]
LABELS = ["car", "bicycle", "pedestrian", "motorbike"]


def _gen_obj(rng, u, label, x, y, yaw=None, vel="rand"):
    if vel == "rand":
        vel = None if rng.random() < 0.2 else [core.dyadic(rng, -8, 8, 4), core.dyadic(rng, -8, 8, 4)]
    return {"u": u, "l": label, "x": float(x), "y": float(y), "yaw": rng.randint(-15, 16) if yaw is None else yaw,
            "v": vel, "w": core.dyadic(rng, 1, 3, 4), "len": core.dyadic(rng, 2, 6, 4)}


def _gen_frame(rng, case, n, k_gt, opts):
    labels = case["labels"]
    ordinary = [l for l in labels if l not in (FPL,)]
    pos = rng.sample(GRID, k_gt)
    gts, ests = [], []
    off = lambda lo, hi: rng.choice([-1, 1]) * core.dyadic(rng, lo, hi, 8)  # noqa: E731
    for i, (x, y) in enumerate(pos):
        if case["frame_id"] == "map":
            x, y = x + 0.125, y + 0.375  # keep away from area boundaries (float round trip)
        fpl = rng.random() < opts["p_fpl"]
        lab = FPL if fpl else rng.choice([l for l in ordinary if l != "unknown"] or ordinary)
        if opts.get("gt_unknown") and not fpl and rng.random() < 0.3 and "unknown" in labels:
            lab = "unknown"
        g = _gen_obj(rng, f"g{opts['gt_ids'][i]}", lab, x, y)
        gts.append(g)
        u = f"e{n}_{i}"
        r = rng.random()
        if fpl:
            if opts.get("fpl_close"):
                # flavour 'n3': an estimate that MATCHES the FP-labelled ground truth (same yaw and size, within the threshold)
                if r < 0.8:
                    e = _gen_obj(rng, u, rng.choice(ordinary), x + off(0, 0.5), y + off(0, 0.5), yaw=g["yaw"])
                    e["w"], e["len"] = g["w"], g["len"]
                    ests.append(e)
            elif r < 0.5:
                ests.append(_gen_obj(rng, u, rng.choice(ordinary), x + off(0, 0.5), y + off(0, 0.5)))
            continue
        kinds = opts["kinds"]
        kind = rng.choices(list(kinds), weights=list(kinds.values()))[0]
        if kind == "tp":
            yaw = g["yaw"] + rng.choice([0, 0, 1, -1, 15, 16, 17, -16, 31, 32] if opts["flip"] else [0, 0, 1, -1, 31, 32, -32])
            e = _gen_obj(rng, u, lab, x + off(0, 0.5), y + off(0, 0.5), yaw=yaw, vel="rand" if g["v"] is None or rng.random() < 0.3 else [g["v"][0] + core.dyadic(rng, -1, 1, 4), g["v"][1]])
            e["w"], e["len"] = g["w"] + rng.choice([0.0, 0.25, -0.25]), g["len"] + rng.choice([0.0, 0.25, -0.25])
            if opts.get("est_unknown") and rng.random() < opts["est_unknown"]:
                e["l"] = "unknown"
            if opts.get("est_any") and rng.random() < opts["est_any"]:
                e["l"] = rng.choice(ordinary)
            ests.append(e)
        elif kind == "far":
            ests.append(_gen_obj(rng, u, lab, x + off(3, 4.5), y + off(3, 4.5)))
        elif kind == "wrong":
            others = [l for l in ordinary if l != lab and l != "unknown"]
            ests.append(_gen_obj(rng, u, rng.choice(others) if others else lab, x + off(0, 0.5), y + off(0, 0.5)))
        # "miss": no estimate
    for j in range(opts["n_free"]):
        x, y = rng.choice(GRID)
        ests.append(_gen_obj(rng, f"e{n}_x{j}", rng.choice(ordinary), x + 6.25 + j, y - 5.75))
    rng.shuffle(ests)
    fr = {"n": n, "t": 1000 * (n + 1), "gts": gts, "ests": ests}
    if case["frame_id"] == "map":
        fr["ego"] = [core.dyadic(rng, -2000, 2000, 4), core.dyadic(rng, -2000, 2000, 4), rng.randint(-15, 16)]
    return fr


def _gen_sels(rng, case, n_sel):
    labels = case["labels"]
    nsc = len(case["scenes"])
    fnums = sorted({fr["n"] for sc in case["scenes"] for fr in sc})
    uuids = sorted({o["u"] for sc in case["scenes"] for fr in sc for o in fr["gts"] + fr["ests"]})
    sels = [{"mode": "analyze"}]
    pool = [
        lambda: {"scene": rng.randrange(nsc + 1)},
        lambda: {"scene": rng.sample(range(nsc + 1), rng.randint(1, min(2, nsc + 1)))},
        lambda: {"area": rng.randrange(case["division"] + (1 if rng.random() < 0.1 else 0))},
        lambda: {"area": rng.sample(range(case["division"]), min(case["division"], 2))},
        lambda: {"label": rng.choice(labels + ["unknown"])},
        lambda: {"label": rng.sample(labels, min(2, len(labels)))},
        lambda: {"frame": rng.choice(fnums) if fnums else 0},
        lambda: {"status": rng.choice(["TP", "FP", "TN", "FN"])},
        lambda: {"status": rng.sample(["TP", "FP", "TN", "FN"], 2)},
        lambda: {"uuid": rng.choice(uuids) if uuids else "g0"},
        lambda: {"distance": sorted([float(rng.choice([0, 10, 25, 30, 40, 50, 65, 90])), float(rng.choice([5, 20, 37.5, 45, 60, 80, 120]))])},
        lambda: {"distance": [50.0, 10.0]},
        lambda: {"label": rng.choice(labels), "area": rng.randrange(case["division"])},
        lambda: {"scene": rng.randrange(nsc), "distance": [0.0, float(rng.choice([30, 50, 75]))]},
        lambda: {"label": rng.choice(labels), "status": ["TP", "FP"]},
    ]
    for k in range(n_sel):
        s = rng.choice(pool)()
        if s.get("distance") is not None and s["distance"][0] == s["distance"][1]:
            s["distance"][1] += 5.0
        s["mode"] = "analyze" if k == 0 else "parts"
        sels.append(s)
    return sels + _selection_class_sels(rng, case, 2)


# ----- the class "selections": ranges narrower than a pair's separation, bounds on a row's distance, empty selections,
#       selections that split pairs (a keyword carried by one row only), combinations, every entry point / argument form

def _is_square(fr):
    """is the non-negative Fraction the square of a rational?"""
    n, d = fr.numerator, fr.denominator
    return math.isqrt(n) ** 2 == n and math.isqrt(d) ** 2 == d


def _root(fr):
    return Fraction(math.isqrt(fr.numerator), math.isqrt(fr.denominator))


def _case_pairs(case):
    """(frame, ground truth, estimate) for every estimate within 7 m of a ground truth of its frame (the likely row pairs)"""
    ps = []
    for si, sc in enumerate(case["scenes"]):
        for fr in sc:
            for e in fr["ests"]:
                near = [g for g in fr["gts"] if (g["x"] - e["x"]) ** 2 + (g["y"] - e["y"]) ** 2 <= 49.0]
                if near:
                    g = min(near, key=lambda g: (g["x"] - e["x"]) ** 2 + (g["y"] - e["y"]) ** 2)
                    ps.append((si, fr, g, e))
    return ps


def _all_dist2(case):
    return sorted({_dist2(o) for sc in case["scenes"] for fr in sc for o in fr["gts"] + fr["ests"]})


def _safe_bound(b, d2s, exact_ok):
    """a bound on the 1/64 grid that is either exactly a row's distance (exact_ok) or at least 1/512 away from every row's"""
    b = Fraction(round(b * 64), 64)
    if b < 0:
        b = Fraction(0)
    for _ in range(40):
        clash = False
        for d2 in d2s:
            if d2 == b * b:
                if exact_ok:
                    return b
                clash = True
                break
            if abs(math.sqrt(d2) - float(b)) < 1.0 / 512:
                clash = True
                break
        if not clash:
            return b
        b += Fraction(1, 256)
    return b


def _narrow_distance(rng, case, pair=None):
    """a distance range placed relative to ONE likely row pair: strictly between its two rows (straddled on both sides), on a
    row's distance (inclusive lower / exclusive upper bound), holding only one of the rows, holding both, just beside"""
    ps = _case_pairs(case)
    d2s = _all_dist2(case)
    if not ps:
        return {"distance": [float(rng.choice([0, 3, 17])), float(rng.choice([18.5, 19, 33]))]}
    _si, fr, g, e = pair or rng.choice(ps)
    a2, b2 = sorted([_dist2(g), _dist2(e)])
    lo, hi = Fraction(math.sqrt(a2)), Fraction(math.sqrt(b2))
    if _is_square(a2):
        lo = _root(a2)
    if _is_square(b2):
        hi = _root(b2)
    w = Fraction(rng.choice([1, 2, 4, 8, 24]), 8)
    gap = hi - lo
    shape = rng.choice(["between", "between", "lo..hi", "..lo", "hi..", "lo..", "..hi", "both", "beside", "only-lo", "only-hi"])
    exact = True
    if shape == "between":
        d0, d1, exact = lo + gap / 4, hi - gap / 4, False
    elif shape == "lo..hi":
        d0, d1 = lo, hi
    elif shape == "..lo":
        d0, d1 = lo - w, lo
    elif shape == "hi..":
        d0, d1 = hi, hi + w
    elif shape == "lo..":
        d0, d1 = lo, lo + min(w, gap / 2 if gap > 0 else w)
    elif shape == "..hi":
        d0, d1 = hi - min(w, gap / 2 if gap > 0 else w), hi
    elif shape == "both":
        d0, d1, exact = lo - w, hi + w, False
    elif shape == "beside":
        d0, d1, exact = hi + Fraction(1, 16), hi + Fraction(1, 16) + w, False
    elif shape == "only-lo":
        d0, d1, exact = lo - w, lo + gap / 2, False
    else:
        d0, d1, exact = lo + gap / 2, hi + w, False
    d0, d1 = _safe_bound(d0, d2s, exact), _safe_bound(d1, d2s, exact)
    if d1 <= d0:
        d1 = _safe_bound(d0 + Fraction(1, 32), d2s, False)
    if d1 <= d0:
        d1 = d0 + 1
    return {"distance": [float(d0), float(d1)], "shape": shape}


def _selection_class_sels(rng, case, k):
    labels = case["labels"]
    nsc = len(case["scenes"])
    fnums = sorted({fr["n"] for sc in case["scenes"] for fr in sc}) or [0]
    ps = _case_pairs(case)
    objs = [o for sc in case["scenes"] for fr in sc for o in fr["gts"] + fr["ests"]]

    def one_row_label():
        """a label carried by ONE row of some pair only (wrong-label FP, unknown / any-label TP): the pair must be kept whole"""
        mixed = [(g, e) for _, _, g, e in ps if g["l"] != e["l"]]
        if mixed:
            g, e = rng.choice(mixed)
            return {"label": rng.choice([g["l"], e["l"], [e["l"]]])}
        return {"label": rng.choice(labels + ["unknown"])}

    def one_row_uuid():
        if ps:
            _, _, g, e = rng.choice(ps)
            return {"uuid": rng.choice([g["u"], e["u"], [g["u"], "nobody"], [e["u"]]])}
        return {"uuid": rng.choice(objs)["u"] if objs else "nobody"}

    def empty():
        return rng.choice([
            {"label": "animal"}, {"uuid": "nobody"}, {"distance": [500.0, 600.0]}, {"frame": max(fnums) + 7}, {"scene": nsc + 3},
            {"status": "TP", "label": "animal"}, {"area": case["division"] + 2}, {"label": [], }, {"distance": [0.0, 0.0078125]},
        ])

    def combo():
        s = {}
        pair = rng.choice(ps) if ps and rng.random() < 0.6 else None  # keywords read off ONE likely row pair: a non-empty combination
        for key in rng.sample(["label", "scene", "frame", "area", "status", "uuid", "distance"], rng.randint(2, 4)):
            if pair is not None:
                si, fr, g, e = pair
                if key == "label":
                    s["label"] = rng.choice([g["l"], e["l"], [g["l"], e["l"]]])
                elif key == "scene":
                    s["scene"] = rng.choice([si, [si], list(range(nsc))])
                elif key == "frame":
                    s["frame"] = rng.choice([fr["n"], [fr["n"]], fnums])
                elif key == "area":
                    s["area"] = list(range(case["division"]))
                elif key == "status":
                    s["status"] = rng.choice([["TP", "FP"], ["TP", "FP", "FN"]])
                elif key == "uuid":
                    s["uuid"] = rng.choice([g["u"], e["u"], [g["u"], e["u"]]])
                else:
                    s.update(_narrow_distance(rng, case, pair))
                continue
            if key == "label":
                s.update(one_row_label() if rng.random() < 0.5 else {"label": rng.sample(labels, min(len(labels), rng.randint(1, 2)))})
            elif key == "scene":
                s["scene"] = rng.choice([rng.randrange(nsc), list(range(nsc))])
            elif key == "frame":
                s["frame"] = rng.choice([rng.choice(fnums), fnums[: max(1, len(fnums) // 2)], fnums])
            elif key == "area":
                s["area"] = rng.choice([rng.randrange(case["division"]), list(range(case["division"]))])
            elif key == "status":
                s["status"] = rng.choice(["TP", "FP", "FN", ["TP", "FP"], ["TP", "FN"], ["FP", "FN", "TN"]])
            elif key == "uuid":
                s.update(one_row_uuid())
            else:
                s.update(_narrow_distance(rng, case) if rng.random() < 0.6 else {"distance": [0.0, float(rng.choice([20, 35, 50, 80]))]})
        return s

    pool = [lambda: _narrow_distance(rng, case)] * 4 + [combo] * 3 + [one_row_label, one_row_uuid, empty]
    out = []
    for _ in range(k):
        s = rng.choice(pool)()
        s["mode"] = rng.choice(["analyze", "parts", "parts", "filter"])
        if "distance" in s:
            s["dform"] = rng.choice(["tuple", "tuple", "list", "array", "int"])
        out.append(s)
    return out


def _gen_case(rng, flavour="plain"):
    case = {"kind": "scenes", "flavour": flavour}
    case["task"] = rng.choices(["detection", "tracking"], weights=[3, 1])[0]
    case["frame_id"] = rng.choice(["base_link", "map"])
    k = rng.randint(2, 4)
    case["labels"] = rng.sample(LABELS, k)
    case["policy"] = rng.choices(["default", "allow_unknown_flag", "allow_unknown"], weights=[5, 2, 1])[0]
    opts = {"p_fpl": rng.choice([0.0, 0.15, 0.3]), "kinds": {"tp": 5, "far": 1.5, "wrong": 1, "miss": 2}, "n_free": 0}
    if flavour == "no_f11":
        opts["kinds"] = {"tp": 6, "miss": 2}
    if flavour == "n1":
        case["policy"] = rng.choice(["allow_unknown_flag", "allow_any"])
        if case["policy"] == "allow_any":
            opts["est_any"] = 0.6
        else:
            case["labels"] = case["labels"][: k - 1] + ["unknown"]
            opts["est_unknown"] = 0.6
            opts["gt_unknown"] = True
        opts["kinds"] = {"tp": 6, "miss": 1}
        case["task"] = "detection"
    elif case["policy"] != "default":
        opts["est_unknown"] = 0.25  # unknown estimates, "unknown" not a target label: rates stay within [0,1]
    if flavour == "n3":
        # pass/fail target labels hold "false_positive" (with a threshold), the evaluation config's do not: a matching estimate inside
        # the threshold is an FP result that keeps its FP-labelled ground truth, a paired row with a label outside target_labels + unknown
        case["pf_labels"] = case["labels"] + [FPL]
        opts["p_fpl"] = 0.5
        opts["fpl_close"] = True
    if flavour not in ("n1", "n3") and rng.random() < 0.2:
        # "false_positive" a target label: FP-labelled ground truths get a threshold, a matching estimate
        # inside it is an FP result that keeps its FP-labelled ground truth (status (FP, FP))
        case["labels"] = case["labels"] + [FPL]
        opts["p_fpl"] = 0.4
    if rng.random() < 0.8:
        mx, my = rng.choice([(96.0, 96.0), (96.0, 48.0), (120.0, 60.0), (75.0, 75.0)])
        case["range"] = {"kind": "xy", "max_x": mx, "max_y": my}
        cf = rng.choice([1.0, 1.0, 0.75, 0.5])
        case["crit"] = {"kind": "xy", "x": mx * cf, "y": my * cf}
    else:
        case["range"] = {"kind": "dist", "max": rng.choice([90.0, 110.0]), "min": rng.choice([0.0, 5.0])}
        case["crit"] = {"kind": "dist", "max": rng.choice([60.0, 90.0, 110.0]), "min": 0.0}
    case["radii"] = rng.choice([None, 5.0, 5.0]) if flavour != "no_f11" else 5.0
    case["thr"] = rng.choice([2.0, 3.0, 8.0])
    opts["flip"] = flavour == "plain" or case["thr"] == 8.0  # a yaw flip swaps the nearest-plane corners: plane distance ~ box size
    case["division"] = rng.choice([1, 3, 9])
    nsc = rng.randint(1, 3)
    scenes = []
    for _ in range(nsc):
        nfr = rng.randint(1, 5)
        n_ids = rng.randint(0, 6)
        start = rng.choice([0, 0, 3, 10])
        sc = []
        for j in range(nfr):
            k_gt = rng.randint(0, n_ids)
            opts["gt_ids"] = sorted(rng.sample(range(n_ids), k_gt))
            opts["n_free"] = rng.choice([0, 0, 1, 2]) if flavour != "no_f11" or case["radii"] else 0
            sc.append(_gen_frame(rng, case, start + j, k_gt, opts))
        scenes.append(sc)
    if flavour == "n3":
        # heights: every ground truth and the estimates derived from it stand at their own height, the ego (map frame) at another one
        for sc in scenes:
            for fr in sc:
                for g in fr["gts"]:
                    g["z"] = core.dyadic(rng, -3, 6, 4)
                for e in fr["ests"]:
                    tail = e["u"].split("_")[-1]
                    e["z"] = fr["gts"][int(tail)]["z"] if tail.isdigit() and int(tail) < len(fr["gts"]) else core.dyadic(rng, -3, 6, 4)
                if "ego" in fr:
                    fr["ego"] = fr["ego"][:3] + [core.dyadic(rng, -20, 40, 4)]
    case["scenes"] = scenes
    case["sels"] = _gen_sels(rng, case, rng.randint(3, 6))
    if flavour == "n3":
        case["sels"] += [{"status": "TP", "mode": "analyze"}, {"status": ["FP", "FN"], "mode": "parts"}]
    return case


def _boundary_case(rng):
    """BASE_LINK objects exactly on area boundaries / on a distance bound (exact in floats)"""
    case = _gen_case(rng, "plain")
    case["frame_id"] = "base_link"
    case["range"] = {"kind": "xy", "max_x": 96.0, "max_y": 48.0}
    case["crit"] = {"kind": "xy", "x": 96.0, "y": 48.0}
    case["division"] = rng.choice([3, 9])
    for sc in case["scenes"]:
        for fr in sc:
            fr.pop("ego", None)
            for o in fr["gts"] + fr["ests"]:
                if rng.random() < 0.4:
                    o["x"] = rng.choice([32.0, -32.0, 30.0, 40.0, 0.0])
                if rng.random() < 0.3:
                    o["y"] = rng.choice([16.0, -16.0, 0.0, 30.0])
    case["sels"] = _gen_sels(rng, case, 3) + [{"distance": [30.0, 50.0], "mode": "parts"}, {"area": 1, "mode": "parts"}]
    return case


RAYS = [(3, 4, 5), (4, 3, 5), (5, 12, 13), (12, 5, 13), (8, 15, 17), (15, 8, 17), (7, 24, 25), (24, 7, 25), (20, 21, 29), (21, 20, 29),
        (1, 0, 1), (0, 1, 1)]


def _distance_case(rng):
    """row pairs whose two rows have EXACT ego-frame distances (positions on rays of Pythagorean directions, c*m/8 metres from
    the ego), separated by 1/8 .. 4.5 m, with distance ranges placed on / between those distances"""
    for _ in range(12):
        case = _gen_case(rng, rng.choice(["plain", "plain", "no_f11"]))
        if len(_case_pairs(case)) >= 4:
            break
    case["flavour"] = "distance"
    if rng.random() < 0.75:
        case["frame_id"] = "base_link"
    case["range"] = {"kind": "xy", "max_x": 96.0, "max_y": 96.0}
    case["crit"] = {"kind": "xy", "x": 96.0, "y": 96.0}
    for sc in case["scenes"]:
        for fr in sc:
            if case["frame_id"] == "base_link":
                fr.pop("ego", None)
            elif "ego" not in fr:
                fr["ego"] = [core.dyadic(rng, -2000, 2000, 4), core.dyadic(rng, -2000, 2000, 4), rng.randint(-15, 16)]
            placed = []
            byid = {}
            for i, g in enumerate(fr["gts"]):
                for _ in range(60):
                    a, b, c = rng.choice(RAYS)
                    sa, sb = rng.choice([-1, 1]), rng.choice([-1, 1])
                    m = rng.randint(max(8, (8 * 8) // c), (8 * 88) // c)
                    x, y = sa * a * m / 8.0, sb * b * m / 8.0
                    if abs(x) < 94 and abs(y) < 94 and all((x - px) ** 2 + (y - py) ** 2 >= 144.0 for px, py in placed):
                        break
                placed.append((x, y))
                dx, dy = x - g["x"], y - g["y"]
                g["x"], g["y"] = x, y
                byid[i] = (g, a, b, c, sa, sb, m, dx, dy)
            for e in fr["ests"]:
                tail = e["u"].split("_")[-1]
                if tail.startswith("x") or not tail.isdigit() or int(tail) not in byid:
                    continue
                g, a, b, c, sa, sb, m, dx, dy = byid[int(tail)]
                if rng.random() < 0.65:
                    dm = rng.choice([-1, 1]) * rng.randint(1, max(1, min(m - 1, (36 // c))))
                    e["x"], e["y"] = sa * a * (m + dm) / 8.0, sb * b * (m + dm) / 8.0
                else:
                    e["x"], e["y"] = e["x"] + dx, e["y"] + dy
    sels = [{"mode": "analyze"}]
    for k in range(rng.randint(5, 7)):
        sl = _narrow_distance(rng, case)
        if rng.random() < 0.3:
            sl.update(rng.choice([{"status": ["TP", "FP"]}, {"label": rng.choice(case["labels"])}, {"scene": 0}, {"area": list(range(case["division"]))}]))
        sl["mode"] = rng.choice(["analyze", "parts", "filter"])
        sl["dform"] = rng.choice(["tuple", "tuple", "list", "array", "int"])
        sels.append(sl)
    case["sels"] = sels + _selection_class_sels(rng, case, 1)
    return case


def _empty_case(rng, with_frames):
    case = _gen_case(rng, "no_f11")
    case["flavour"] = "empty"
    case["scenes"] = [[{"n": 0, "t": 1000, "gts": [], "ests": []}]] if with_frames else [[]]
    if case["frame_id"] == "map":
        for sc in case["scenes"]:
            for fr in sc:
                fr["ego"] = [10.0, 20.0, 3]
    case["sels"] = [{"mode": "analyze"}]
    return case


def table_witness_cases():
    """concrete inputs realising the valuations on which the code's decision tables (harness/dt_c19.py) and the model's skeletons
    differ; empty on an unchanged source. Never raises."""
    try:
        from .. import dt_c19

        return dt_c19.witness_cases()
    except Exception:  # noqa: BLE001 - the witness step must never break the check
        return []


def extra_evidence():
    from .. import dt_c19

    return {"tables": dt_c19.evidence()}


_STATE = {}


def _table_branches():
    """once per run: how the tables of the real code came out (`table:untranslatable` = the translator fell back)"""
    if _STATE.get("table_branches_done"):
        return []
    _STATE["table_branches_done"] = True
    try:
        from .. import dt_c19

        ev = dt_c19.evidence()
        b = [f"table:untranslatable:{k}" for k in ev["decision_tables_untranslatable"]]
        if b:
            b.append("table:untranslatable")
        return b + [f"table:{k}:paths={v['paths']}" for k, v in ev["decision_tables"].items()]
    except Exception:  # noqa: BLE001
        return ["table:untranslatable"]


def generate(rng, tier):
    n = 69 if tier == "quick" else 460
    cases = table_witness_cases()
    for i in range(n):
        r = i % 23
        if r % 2 == 1 and r not in (3, 7, 13, 17, 19):
            cases.append(_gen_case(rng, "no_f11"))
        elif r == 7:
            cases.append(_boundary_case(rng))
        elif r in (3, 10, 19):
            cases.append(_distance_case(rng))
        elif r == 13:
            cases.append(_gen_case(rng, "n1"))
        elif r == 17 and (i // 23) % 3 == 0:
            cases.append(_empty_case(rng, rng.random() < 0.5))
        else:
            cases.append(_gen_case(rng, "plain"))
    # flavour 'n3' (pass/fail target labels != config's, object / ego heights) from a generator of its own, appended last,
    # so that the cases above are the same as before
    import random as _random

    rng3 = _random.Random(sum(rng.getstate()[1][:8]) + (0 if tier == "quick" else 1))
    for _ in range(6 if tier == "quick" else 36):
        cases.append(_gen_case(rng3, "n3"))
    return cases


def corpus():
    cs = []
    if CORPUS_DIR.exists():
        for p in sorted(CORPUS_DIR.glob("*.json")):
            cs.append(json.loads(p.read_text())["case"])
    return cs


def branches(case, out):
    if case.get("kind") in ("area", "rows"):
        return [f"kind:{case['kind']}", "table:witness"] + _table_branches() + (["impl-error:" + str(out.get("err"))] if "err" in out else []) + (
            ["unobservable:" + str(out["unobservable"])] if "unobservable" in out else [])
    b = _table_branches() + [f"frame:{case['frame_id']}", f"task:{case['task']}", f"division:{case['division']}", f"policy:{case['policy']}",
         f"range:{case['range']['kind']}", f"radii:{case.get('radii')}", f"scenes:{len(case['scenes'])}",
         f"frames:{sum(len(s) for s in case['scenes'])}", f"flavour:{case.get('flavour')}"]
    if "frames" not in out or "err" in out or isinstance(out.get("rows"), dict):
        return b + ["impl-error:" + str(out.get("err")), "trivial"]
    ls = [l for sc in out["frames"] for l in sc]
    if not _passfail_observable(out):
        b.append("unobservable:passfail-results")
    nrows = len(out["rows"])
    if nrows == 0:
        b.append("trivial")
    b.append("rows:" + ("0" if nrows == 0 else "1-9" if nrows < 10 else "10-29" if nrows < 30 else "30+"))
    f11 = 0
    for sc_case, sc_out in zip(case["scenes"], out["frames"]):
        for fr, l in zip(sc_case, sc_out):
            objs = _objs_of(fr)
            if l["tp"]:
                b.append("has:TP")
            else:
                b.append("frame-without-TP")
            for e, g in l["fp"]:
                if g is None:
                    b.append("has:FP-without-GT")
                elif objs[g]["l"] == FPL:
                    b.append("has:FP-with-FP-labelled-GT")
                else:
                    b.append("has:FP-with-ordinary-GT(F11)")
                    f11 += 1
            if l["tn"]:
                b.append("has:TN")
            if l["fn"]:
                b.append("has:FN")
            if len(l["critical"]) < len(fr["gts"]):
                b.append("critical-filter-drops-GT")
            if any(objs[e]["l"] != objs[g]["l"] for e, g in l["tp"]):
                b.append("has:TP-with-different-labels")
            if any(o["v"] is None for o in fr["gts"] + fr["ests"]):
                b.append("has:velocity-None")
    b = sorted(set(b))
    b.append("f11-frames:" + ("0" if f11 == 0 else "1+"))
    if _yaw_pi_pairs(case, out):
        b.append("yaw-diff-exactly-pi")
    for row in out["rows"]:
        for c in (row[2], row[5]):
            if c is not None and c["area"] is None:
                b.append("area:None")
                break
    items_l = [it[:5] for it in _items(case, out)]
    for sel, a in zip(case["sels"], out["analyses"]):
        keys = "+".join(sorted(k for k in _sel_kwargs(sel))) or "all"
        res = "err:" + a["err"] if "err" in a else "none" if a.get("none") else "ok"
        b.append(f"sel:{keys}:{res}")
        b.append(f"sel-mode:{sel.get('mode', 'analyze')}")
        kw = _sel_kwargs(sel)
        if len(kw) >= 2:
            b.append(f"sel-class:combination-of-{min(len(kw), 4)}")
        if a.get("sel") is not None and not a["sel"]["index"] and kw:
            b.append("sel-class:empty-selection")
        if "distance" in kw:
            b.append(f"sel-dform:{sel.get('dform', 'tuple')}")
            d0, d1 = Fraction(kw["distance"][0]), Fraction(kw["distance"][1])
            if d0 < d1:
                for st, g, e, si, n in items_l:
                    ds = [_dist2(o) for o in (g, e) if o is not None]
                    if any(d == d0 * d0 for d in ds):
                        b.append("sel-class:row-on-lower-bound")
                    if any(d == d1 * d1 for d in ds):
                        b.append("sel-class:row-on-upper-bound")
                    if len(ds) == 2:
                        lo, hi = min(ds), max(ds)
                        if lo < d0 * d0 and hi >= d1 * d1:
                            b.append("sel-class:pair-straddles-range")
                        ins = [(d0 <= 0 or d0 * d0 <= d) and d < d1 * d1 for d in ds]
                        if ins[0] != ins[1]:
                            b.append("sel-class:one-row-in-range")
        for key in ("label", "uuid"):
            if key in kw:
                vals = _vals(kw[key])
                f = "l" if key == "label" else "u"
                if any(g is not None and e is not None and (g[f] in vals) != (e[f] in vals) for st, g, e, si, n in items_l):
                    b.append(f"sel-class:{key}-on-one-row-of-a-pair")
        if "ratio" in a:
            b.append("cm:" + ("none" if a["cm"] is None else "some"))
            if any(v is None or v == "absent" for v in a["error"]["ALL"].values()):
                b.append("error-summary:NaN")
            for l, vals in a["ratio"].items():
                if any(v is not None and v > 1.0 for v in vals):
                    b.append("rate>1(N1)")
    for k, v in out["num"].items():
        if isinstance(v, dict):
            b.append("num-raises:" + v["err"])
            break
    if case.get("pf_labels"):
        b.append("pf-labels:differ-from-config")
        tl = set(case["labels"]) | {"unknown"}
        if any(a.get("cm_labels") and not set(a["cm_labels"]) <= tl for a in out["analyses"]):
            b.append("n3:confusion-matrix-with-extra-label")
    if any(o.get("z") for sc in case["scenes"] for fr in sc for o in fr["gts"] + fr["ests"]):
        b.append("heights:objects")
    if any(len(fr.get("ego") or []) > 3 and fr["ego"][3] for sc in case["scenes"] for fr in sc):
        b.append("heights:ego")
    sr = out.get("status_rates")
    if isinstance(sr, dict) and "err" not in sr:
        for g in sr["scenes"] + [sr["all"]]:
            for x in g["records"]:
                if any(v == "inf" for v in x["rates"]) and x["total"] > 0:
                    b.append("observed:status-rate-inf")
                if any(v != "inf" for v in x["rates"]):
                    b.append("status-rate:defined")
                if sum(1 for v in x["rates"] if v != "inf") >= 2:
                    b.append("status-rate:two-statuses-for-one-gt")
            b.append("scene-rates:" + ("inf" if g["scene"] == ["inf"] * 4 else "defined"))
    elif isinstance(sr, dict):
        b.append("unobservable:status-rates")
        b.append("status-rates-raise:" + sr["err"])
    return sorted(set(b))


def shrink(case):
    """drop scenes, frames, objects, selections"""
    import copy

    if case.get("kind") in ("area", "rows"):
        return
    if len(case["scenes"]) > 1:
        for i in range(len(case["scenes"])):
            c = copy.deepcopy(case)
            del c["scenes"][i]
            c["sels"] = [s for s in c["sels"] if "scene" not in s]
            yield c
    for i, sc in enumerate(case["scenes"]):
        if len(sc) > 1:
            for j in range(len(sc)):
                c = copy.deepcopy(case)
                del c["scenes"][i][j]
                yield c
    if len(case["sels"]) > 1:
        for i in range(len(case["sels"])):
            c = copy.deepcopy(case)
            del c["sels"][i]
            yield c
    for i, sc in enumerate(case["scenes"]):
        for j, fr in enumerate(sc):
            for key in ("gts", "ests"):
                for k in range(len(fr[key])):
                    c = copy.deepcopy(case)
                    del c["scenes"][i][j][key][k]
                    yield c


def area_probe_cases():
    """the area kernel on a lattice of positions for 1 / 3 / 9 divisions (used by the failing-input search only)"""
    try:
        from .. import dt_c19

        return [c for _nm, _k1, k2 in dt_c19.AREA_SHAPES for c in dt_c19.probe_cases(k2)]
    except Exception:  # noqa: BLE001
        return []


def search(rng, st, disagreements):
    return table_witness_cases() + area_probe_cases() + [_gen_case(rng, rng.choice(["plain", "plain", "no_f11", "n1"])) for _ in range(60)] + [_boundary_case(rng) for _ in range(10)] + [_distance_case(rng) for _ in range(25)]
