"""C19 — analysis tables are a faithful tabulation of the frame results.

Tie to the code: every case is a list of scenes, each a list of frames (ground truth + estimates in the
ego frame, optionally rendered into the map frame with an ego pose).  The REAL
`PerceptionEvaluationManager.add_frame_result` evaluates every frame; the REAL `PerceptionAnalyzer3D`
tabulates them (`add` per scene), and `df`, the `num_*` properties, `analyze()` (ratio / error /
confusion matrix, with label / scene / frame / area / status / distance selections, 1/3/9 area divisions)
and `get_object_status` are observed.  The Lean model receives the four pass/fail lists of every frame
(uuids, labels, and the harness' own ego-frame coordinates as exact rationals) and must reproduce the row
layout, counts, errors, summaries, rates, confusion matrix and tallies.  The oracle states the property on
the real outputs with references recomputed from the generated scene, independent of the model.

Selections: for every selection the selected table itself is observed (pair indices, counts over it, row-wise keyword counts).
The model must select the same pairs (`PEval.Analyzer.selectTable`); the oracle evaluates the documented pair predicate on the
generated scene (every given keyword carried by SOME row of the pair; SOME row with d0 <= ego-frame distance < d1, exact rational
arithmetic, undecided within 1e-6 of a bound in the map frame) and demands that the selected table holds exactly those pairs, whole
and in order, and that counts, paired rows, the confusion-matrix total and the error summaries are those of the selected items.

Known findings (the model reproduces them, the oracle fails on them, `known_finding` recognises exactly
the characterised deviation): F11 (double count of an ordinary GT paired with a failing estimate), N1
(per-label TP rate above one when TP pairs have different labels), N2 (`num_*` raise TypeError on an empty
table).

Additions after the audit: (a) op `raw_rows`: the model also receives the objects AS GIVEN to the real code (base_link or map frame,
with heights, and the frame's ego pose) and applies its own model of `transforms.transform((frame, BASE_LINK), ...)` of `format2dict` /
`get_area_idx` (`PEval.Analyzer.addAllRaw`); the resulting x, y, yaw, area and distance columns are compared with the real table.
(b) `GroundTruthStatus.get_status_rates()`, `StatusRate.rate` and `get_scene_rates()` are observed on the real records and compared
with `PEval.Analyzer.statusRates` / `sceneRates`; the oracle demands rate = #tally entries of the status / #tally entries, in [0,1],
scene rates summing to 1; `float("inf")` for a status that never occurred is reproduced by the model and not judged (an observation,
not a clause of C19).
(c) flavour `n3` and corpus case n3.json: pass/fail target labels that hold "false_positive" while the config's do not; an FP result then
keeps an FP-labelled ground truth; `get_confusion_matrix()` / `analyze()` used to raise ValueError there (N3, fixed in /repo by 24663d1: the
labels met in the paired rows are appended to the index of the matrix); the model follows the repaired code (index and order of the appended
labels are compared), the oracle judges these cases like any other.
"""
from __future__ import annotations

import json
import math
import os
import tempfile
from fractions import Fraction
from pathlib import Path

from .. import core

os.environ.setdefault("TQDM_DISABLE", "1")  # the analyzer wraps its loops in tqdm

PROP = "C19"
EXHAUSTIVE = False
RULE = (
    "random scenes: 1..3 scenes x 1..5 frames, 0..6 ground truths on a sparse dyadic grid (ordinary / FP-labelled, uuids "
    "persistent across the frames of a scene), estimates derived per ground truth (near = TP, far or wrong label = FP "
    "carrying the GT [F11], none = FN, near an FP-labelled GT = TN or, with 'false_positive' a target label, FP carrying "
    "the FP-labelled GT) plus free estimates (GT-less FP); BASE_LINK or MAP frame with per-frame ego poses; detection / "
    "tracking; label policies default / allow_unknown / allow_any; matchable radius on/off; critical filter narrower than "
    "the manager filter (x/y or distance ranges); 1/3/9 area divisions; objects exactly on area / distance boundaries "
    "(BASE_LINK); 4..7 selections per case (label, scene, frame, area, status, uuid, distance, combinations, inverted "
    "distance); flavours: plain (F11 frequent), no_f11, n1 (TP pairs with different labels, finding N1), empty (finding N2); "
    "the class SELECTIONS (2 extra selections per case, 6..8 in the flavour 'distance' whose row pairs have EXACT ego-frame distances "
    "c*m/8 on Pythagorean rays): distance ranges placed relative to one likely row pair - strictly between its two rows (the pair "
    "straddles the range on both sides), with a bound ON a row's distance (lower inclusive, upper exclusive), holding only one row, "
    "both, just beside; keywords carried by ONE row of a pair only (label of a wrong-label / unknown estimate, uuid of either row); "
    "empty selections (absent label / uuid / scene / frame / area, empty list, far range); combinations of 2..4 keywords read off one "
    "likely pair (non-empty) or drawn independently; every entry point: analyze(**kw), get(**kw) / filter(**kw) + "
    "filter_by_distance(range, df) / filter_by_distance(range) + summarize_ratio / summarize_error / get_confusion_matrix / "
    "get_pair_results / get_num_*(df=selection) / get_num_*(**kw); the range as tuple / list / ndarray / ints; "
    "a case is non-trivial when its table has at least one row; distinct = distinct canonical case; "
    "first of all the witness inputs of the decision tables (kinds 'area', 'rows'): concrete inputs realising the valuations on which "
    "the code's regenerated table and the model's skeleton differ (none on an unchanged source); "
    "last, from a generator of its own (the cases before are unaffected): 6 (quick) / 36 (thorough) cases of flavour n3 - pass/fail target labels = "
    "config labels + 'false_positive', FP-labelled ground truths with a MATCHING estimate (an FP result keeping the FP-labelled GT: N3), every ground "
    "truth and its estimates at their own height, the ego (map frame) at another height"
)
THEOREMS = [
    "PEval.C19." + t
    for t in [
        "rows_per_item", "rows_per_item_flat", "index_range", "frame_block",
        "status_counts_eq_lists", "num_estimation_eq",
        "num_gt_exact", "num_gt_eq_critical_partial", "passFail_wf",
        "num_gt_exact_passFail",
        "object_status_tallies", "object_status_total_exact", "object_status_once_partial",
        "pairs_eq_lists", "errors_eq_gt_minus_est", "yaw_error_wrapped",
        "summary_defs", "summary_max_min",
        "rates_in_unit_all", "rates_in_unit_label_partial", "label_tp_rate_exact",
        "confusion_sum", "confusion_none_iff",
        "area_idx_unique", "area_idx_inside",
        "num_props_empty",
        # selections: which sub-table, what the pair predicate says, counts over a selection = counts of the selected items
        "selection_exact", "selection_predicate", "selection_counts", "selection_confusion_sum", "selection_counts_whole",
        "example_straddle",
        # decision tables extracted from the real code (harness/dt_c19.py), regenerated on every run
        "analyzer_table_check", "analyzer_code_table_eq_model", "area_code_table_eq_getAreaIdx", "table_area_spec",
        "table_on_grid_line", "rows_code_table_eq_model", "table_rows_per_item", "table_rows_examples",
        # N3 (fixed): the repaired get_confusion_matrix / analyze are total, the matrix sums to the paired rows over the extended index and
        # equals the old one whenever that was defined; the PRE-FIX functions raised ValueError iff a paired row carries a label outside
        # target_labels + unknown; witness for a variant that drops such rows
        "confusion_total", "analyze_total", "confusion_error_iff", "analyze_error_iff", "confusion_error_frames", "analyze_total_of_labels", "example_n3",
        "confusion_skip_fails",
        # rows are expressed in the ego frame for objects given in base_link OR map (format2dict / get_area_idx transform steps)
        "rows_from_raw", "ego_row_of_rendering", "ego_frame_invariance", "example_ego_rows", "toRow_noTransform_fails",
        # which rows feed summarize_error (ALL; per label keyed by the GROUND TRUTH's label) and what the summaries are
        "error_summary_rows", "error_summary_whole", "error_summary_functions", "example_error_summary", "summary_by_est_fails",
        # GroundTruthStatus.get_status_rates / StatusRate.rate / get_scene_rates
        "status_rates_unit", "scene_rates_unit_sum", "scene_rates_f11_exact", "example_status_rates",
    ]
]
TRUSTED = [
    "pandas (MultiIndex frames, xs, boolean masks, groupby(level=0).any(), concat) is modelled by lists of row pairs",
    "pyquaternion yaw_pitch_roll / HomogeneousMatrix inverse: op 'analyze' receives the ego-frame x, y, yaw of the generated scene (truth); op 'raw_rows' receives the "
    "objects AS GIVEN to the real code (the floats of the base_link / map coordinates as exact rationals, the map-frame yaw and the ego yaw in half-turns, the ego "
    "rotation as the rationals of cos / sin) and applies the model of transform((frame, BASE_LINK), ...) itself (PEval.Analyzer.addAllRaw); both are compared with "
    "the real table within 1e-9 (that rot and tau describe the same angle is the bridge of DESIGN 4.2)",
    "numpy mean/std/sqrt/max/min/bincount: the model computes mean, RMS^2, variance, max|e|, min|e| exactly",
    "harness/dt_c19.py + harness/dtable.py + harness/dt_multi.py (decision-table translator): the symbolic numbers (rational linear "
    "forms that numpy stores in object arrays; a comparison is answered from one order atom per (position, grid line); the sign of "
    "c*max_x is the sign of c), the stub object / transform (an object exposes frame_id and state.position, the transform answers the "
    "ego-frame leaves), the result proxies of the row-status kernel (delegation to a real result with / without ground truth), the "
    "DFS over decisions, the encoding of the DataFrame as a number, the Lean emission; order atoms of different grid lines are "
    "treated as independent (over-approximation)",
]
ASSUMPTIONS = [
    "ground truths of one frame are pairwise distinct under DynamicObject.__eq__ and have distinct uuids (C03's hypothesis)",
    "max_x_position, max_y_position > 0",
    "columns speed, nn_plane, distance (square roots) and the metric-score columns of analyze().score are not modelled (AP/CLEAR belong to C04/C05)",
    "N3 (FIXED in /repo, fix: 24663d1): with pass/fail target labels that hold 'false_positive' while the evaluation config's do not (flavour 'n3', corpus n3.json), an "
    "FP result keeps an FP-labelled ground truth and the paired row carries a label outside target_labels + unknown; get_confusion_matrix() / analyze() used to raise "
    "ValueError there (pre-fix model getConfusionMatrixOld / analyzeOld, PEval.C19.confusion_error_iff); the repaired code appends such labels to the index, the model "
    "follows it (PEval.C19.confusion_total) and the oracle judges these cases like any other (no exception, matrix sums to the paired rows); every other flavour uses "
    "the config's labels for pass/fail",
    "StatusRate.rate returns float('inf') for a status that never occurred for a ground truth (count 0, total > 0): by the property text not a C19 clause (the [0,1] "
    "clause is about analyze()'s ratios); modelled as the code does it (PEval.C19.status_rates_unit), not judged (histogram key observed:status-rate-inf); the oracle's "
    "rate clause is 'rate = #tally entries of the status / #tally entries', the tallies themselves being judged against the pass/fail lists (F11)",
    "add_frame is exercised through add() (a direct call raises KeyError because add() creates the transforms entry)",
    "analyze() on an empty table with keyword selections is not exercised",
    "get_num_*(df=<empty selection of a non-empty table>) raises KeyError in the unchanged library; analyze() never calls them there (it returns "
    "the empty result first), so counts over a selection are observed for non-empty selections only",
    "a distance bound closer than 1e-6 (map frame; 1e-9 in BASE_LINK unless exactly equal) to a row's distance leaves that row undecided in the oracle",
    "evaluation_task fp_validation is not exercised (the manager cannot load the sample dataset for it); FP-labelled ground truths are exercised under detection/tracking",
]

F11 = "F11-analyzer-double-count"
N1 = "N1-analyzer-label-rate-above-one"
N2 = "N2-analyzer-empty-table-typeerror"

CORPUS_DIR = Path(__file__).resolve().parent.parent / "corpus" / "c19"
SAMPLE = str(core.REPO / "perception_eval" / "test" / "sample_data")
PI = math.pi
FPL = "false_positive"
COLS = ["x", "y", "yaw", "length", "width", "vx", "vy"]

_tmp = None


def _tmpdir():
    global _tmp
    if _tmp is None:
        _tmp = tempfile.mkdtemp(prefix="c19_")
    return _tmp


# ----------------------------------------------------------------------------- building real objects

def _yaw(k):
    """object yaw: k sixteenths of a half-turn"""
    return k * PI / 16.0


def _label(name):
    from perception_eval.common.label import AutowareLabel, Label

    l = AutowareLabel(name)
    return Label(l, l.value, [])


def _render(o, frame_id, ego):
    """(x, y, z, yaw) exactly as handed to the real DynamicObject: the ego-frame data, moved into the map frame if asked
    (ego = [x, y, yaw in sixteenths of a half-turn] or [x, y, yaw, z])"""
    x, y, z, yaw = o["x"], o["y"], o.get("z", 0.0), _yaw(o["yaw"])
    if frame_id == "map":
        ex, ey, ek = ego[:3]
        c, s = math.cos(_yaw(ek)), math.sin(_yaw(ek))
        x, y, yaw = ex + c * x - s * y, ey + s * x + c * y, yaw + _yaw(ek)
        z = z + (ego[3] if len(ego) > 3 else 0.0)
    return x, y, z, yaw


def _mk(o, t, frame_id, ego):
    """the real DynamicObject of a case object (ego-frame data), rendered into the map frame if asked"""
    from perception_eval.common.object import DynamicObject
    from perception_eval.common.schema import FrameID
    from perception_eval.common.shape import Shape, ShapeType
    from pyquaternion import Quaternion

    x, y, z, yaw = _render(o, frame_id, ego)
    vel = None if o["v"] is None else (o["v"][0], o["v"][1], 0.0)
    return DynamicObject(
        t, FrameID.MAP if frame_id == "map" else FrameID.BASE_LINK, (x, y, z),
        Quaternion(axis=[0, 0, 1], angle=yaw), Shape(ShapeType.BOUNDING_BOX, (o["w"], o["len"], 1.5)),
        vel, o.get("conf", 0.9), _label(o["l"]), uuid=o["u"], pointcloud_num=10,
    )


def _config(case):
    from perception_eval.config import PerceptionEvaluationConfig

    L = case["labels"]
    d = {
        "evaluation_task": case["task"], "target_labels": L, "min_point_numbers": [0] * len(L),
        "label_prefix": "autoware", "merge_similar_labels": False,
        "center_distance_thresholds": [[1.0] * len(L)], "plane_distance_thresholds": [2.0],
        "iou_2d_thresholds": [0.5], "iou_3d_thresholds": [0.5],
    }
    if case["policy"] == "allow_unknown_flag":
        d["allow_matching_unknown"] = True
    elif case["policy"] != "default":
        d["matching_label_policy"] = case["policy"]
    else:
        d["allow_matching_unknown"] = False
    if case["range"]["kind"] == "xy":
        d["max_x_position"] = case["range"]["max_x"]
        d["max_y_position"] = case["range"]["max_y"]
    else:
        d["max_distance"] = case["range"]["max"]
        d["min_distance"] = case["range"]["min"]
    if case.get("radii") is not None:
        d["max_matchable_radii"] = case["radii"]
    return PerceptionEvaluationConfig(
        dataset_paths=[SAMPLE], frame_id=case["frame_id"], result_root_directory=_tmpdir(), evaluation_config_dict=d
    )


def _area_max(case):
    r = case["range"]
    return (r["max_x"], r["max_y"]) if r["kind"] == "xy" else (100.0, 100.0)


def _evaluate(case):
    """run the real manager on every scene; returns (config, [[PerceptionFrameResult]])"""
    from perception_eval.common.dataset import FrameGroundTruth
    from perception_eval.common.schema import FrameID
    from perception_eval.common.transform import HomogeneousMatrix
    from perception_eval.evaluation.result.perception_frame_config import CriticalObjectFilterConfig, PerceptionPassFailConfig
    from perception_eval.manager import PerceptionEvaluationManager
    from pyquaternion import Quaternion

    cfg = _config(case)
    L = case["labels"]
    scenes = []
    for sc in case["scenes"]:
        m = PerceptionEvaluationManager(cfg)
        for fr in sc:
            ego = fr.get("ego") or [0.0, 0.0, 0]
            if case["frame_id"] == "map":
                tf = HomogeneousMatrix((ego[0], ego[1], ego[3] if len(ego) > 3 else 0.0), Quaternion(axis=[0, 0, 1], angle=_yaw(ego[2])), FrameID.BASE_LINK, FrameID.MAP)
            else:
                tf = HomogeneousMatrix((0.0, 0.0, 0.0), (1.0, 0.0, 0.0, 0.0), FrameID.BASE_LINK, FrameID.MAP)
            t = fr["t"]
            gt = FrameGroundTruth(t, str(fr["n"]), [_mk(o, t, case["frame_id"], ego) for o in fr["gts"]], transforms=[tf])
            from harness import builders as _B  # registry with a history (replaced ego pose), see builders.give_history

            _B.maybe_history(gt, tf, ("c19", t, len(fr["gts"]), ego[0]))
            ests = [_mk(o, t, case["frame_id"], ego) for o in fr["ests"]]
            if case["crit"]["kind"] == "xy":
                crit = CriticalObjectFilterConfig(cfg, L, max_x_position_list=[case["crit"]["x"]] * len(L), max_y_position_list=[case["crit"]["y"]] * len(L))
            else:
                crit = CriticalObjectFilterConfig(cfg, L, max_distance_list=[case["crit"]["max"]] * len(L), min_distance_list=[case["crit"]["min"]] * len(L))
            PL = case.get("pf_labels") or L  # flavour 'n3': pass/fail target labels that differ from the config's
            pf = PerceptionPassFailConfig(cfg, PL, matching_threshold_list=[case["thr"]] * len(PL))
            m.add_frame_result(t, gt, ests, crit, pf)
        scenes.append(list(m.frame_results))
    return cfg, scenes


def _uid(o):
    return None if o is None else o.uuid


def _frame_lists(fr):
    """canonical pass/fail lists of a real frame result (+ what the model of PassFailResult needs)"""
    from perception_eval.common.threshold import get_label_threshold
    from perception_eval.evaluation.matching import MatchingMode

    pf = fr.pass_fail_result
    cfgp = pf.frame_pass_fail_config
    results = []
    for r in fr.object_results:
        lab = r.ground_truth_object.semantic_label if r.ground_truth_object is not None else r.estimated_object.semantic_label
        thr = get_label_threshold(lab, cfgp.target_labels, cfgp.matching_threshold_list)
        results.append([r.estimated_object.uuid, _uid(r.ground_truth_object), bool(r.is_result_correct(MatchingMode.PLANEDISTANCE, thr))])
    return {
        "n": int(fr.frame_name),
        "tp": [[r.estimated_object.uuid, _uid(r.ground_truth_object)] for r in pf.tp_object_results],
        "fp": [[r.estimated_object.uuid, _uid(r.ground_truth_object)] for r in pf.fp_object_results],
        "tn": [o.uuid for o in pf.tn_objects],
        "fn": [o.uuid for o in pf.fn_objects],
        "critical": [o.uuid for o in fr.frame_ground_truth.objects],
        "results": results,
    }


def _f(x):
    """a DataFrame number as a JSON value (NaN/None -> None)"""
    if x is None:
        return None
    try:
        x = float(x)
    except (TypeError, ValueError):
        return None
    return None if math.isnan(x) else x


def _cell(row):
    st = row["status"]
    if st is None or (isinstance(st, float) and math.isnan(st)):
        return None
    a = _f(row["area"])
    return {"st": str(st), "u": row["uuid"], "l": row["label"], "x": _f(row["x"]), "y": _f(row["y"]), "yaw": _f(row["yaw"]),
            "area": None if a is None else int(a), "frame": int(row["frame"]), "scene": int(row["scene"]),
            "frame_id": row["frame_id"], "dist": _f(row["distance"])}


def _rows(df):
    rows = []
    recs = df.to_dict("records")
    idx = list(df.index)
    if len(idx) % 2:
        return {"odd": len(idx)}
    for k in range(0, len(idx), 2):
        (i0, s0), (i1, s1) = idx[k], idx[k + 1]
        rows.append([int(i0), s0, _cell(recs[k]), int(i1), s1, _cell(recs[k + 1])])
    return rows


def _sel_kwargs(sel):
    kw = {}
    for k in ("label", "scene", "frame", "area", "status", "uuid", "distance"):
        if k in sel and sel[k] is not None:
            v = sel[k]
            kw[k] = tuple(v) if k == "distance" else v
    return kw


def _dist_arg(sel, dist):
    """the distance range in the form the selection asks for (the parameter is an `Iterable[float]`)"""
    form = sel.get("dform", "tuple")
    if form == "list":
        return [dist[0], dist[1]]
    if form == "array":
        import numpy as np

        return np.array([dist[0], dist[1]])
    if form == "int" and float(dist[0]).is_integer() and float(dist[1]).is_integer():
        return (int(dist[0]), int(dist[1]))
    return (dist[0], dist[1])


def _select(an, sel):
    """the selected table through the public selection entry points: get(**kw) / filter(**kw), then filter_by_distance"""
    kw = _sel_kwargs(sel)
    dist = kw.pop("distance", None)
    if sel.get("mode") == "filter":
        if dist is not None and not kw:
            return an.filter_by_distance(_dist_arg(sel, dist))  # df=None: the whole table
        df = an.filter(**kw)
    else:
        df = an.get(**kw)
    if dist is not None:
        df = an.filter_by_distance(_dist_arg(sel, dist), df)
    return df


def _sel_table(an, sel, df, table_empty):
    """what was selected: the pair indices (in order), whether pairs are whole, counts on the selection"""
    idx = list(df.index)
    whole = len(idx) % 2 == 0
    index = []
    for k in range(0, len(idx) - 1, 2):
        (i0, s0), (i1, s1) = idx[k], idx[k + 1]
        if i0 != i1 or s0 != "ground_truth" or s1 != "estimation":
            whole = False
        index.append(int(i0))
    d = {"index": index, "whole_pairs": whole}
    if len(df) > 0 and whole:
        # (the num_* getters raise KeyError on an EMPTY selection; analyze() never calls them there)
        num = {}
        for k, f in (("gt", an.get_num_ground_truth), ("est", an.get_num_estimation), ("tp", an.get_num_tp), ("fp", an.get_num_fp),
                     ("tn", an.get_num_tn), ("fn", an.get_num_fn)):
            try:
                num[k] = int(f(df=df))
            except Exception as e:
                num[k] = {"err": type(e).__name__}
        d["num"] = num
        try:
            g, _e = an.get_pair_results(df)
            d["paired"] = 0 if g is None else int(len(g))
        except Exception as e:
            d["paired"] = {"err": type(e).__name__}
    kw = _sel_kwargs(sel)
    kw.pop("distance", None)
    if kw and not table_empty:
        rw = {}
        for k, f in (("gt", an.get_num_ground_truth), ("est", an.get_num_estimation), ("tp", an.get_num_tp), ("fp", an.get_num_fp),
                     ("tn", an.get_num_tn), ("fn", an.get_num_fn)):
            try:
                rw[k] = int(f(**kw))
            except Exception as e:
                rw[k] = {"err": type(e).__name__}
        d["rowwise"] = rw
    return d


def _analysis(an, sel, labels):
    """one selection through the real analyzer; 'mode' analyze = analyze(), parts / filter = the public pieces"""
    import numpy as np

    kw = _sel_kwargs(sel)
    seld = None
    try:
        df = _select(an, sel)
        seld = _sel_table(an, sel, df, len(an.df) == 0)
        if sel.get("mode", "analyze") == "analyze":
            if "distance" in kw:
                kw["distance"] = _dist_arg(sel, kw["distance"])
            res = an.analyze(**kw)
            if res.score is None:
                return {"none": True, "sel": seld}
            ratio_df, err_df, cm_df = res.score, res.error, res.confusion_matrix
        else:
            if len(df) == 0:
                return {"none": True, "sel": seld}
            ratio_df = an.summarize_ratio(df=df)
            err_df = an.summarize_error(df=df)
            cm_df = an.get_confusion_matrix(df=df)
    except Exception as e:
        return {"err": type(e).__name__, "sel": seld}
    ratio = {str(l): [float(ratio_df.loc[l, c]) for c in ("TP", "FP", "TN", "FN")] for l in ratio_df.index}
    error = {}
    for l in ["ALL"] + labels:
        error[l] = {}
        for c in COLS:
            r = err_df.loc[(l, c)]
            error[l][c] = None if math.isnan(float(r["average"])) else {k: float(r[k]) for k in ("average", "rms", "std", "max", "min")}
    cm = None
    cm_labels = None
    if cm_df is not None:
        cm = [[int(v) for v in row] for row in np.array(cm_df)]
        cm_labels = [str(x) for x in cm_df.index]
    # the selected table, for the oracle (number of paired rows)
    recs = df.to_dict("records")
    paired = 0
    for k in range(0, len(recs) - 1, 2):
        if _cell(recs[k]) is not None and _cell(recs[k + 1]) is not None:
            paired += 1
    return {"ratio": ratio, "error": error, "cm": cm, "cm_labels": cm_labels, "paired_rows": paired, "n_rows": len(recs), "sel": seld}


def _status(frames):
    from perception_eval.evaluation.result.perception_frame_result import get_object_status

    return [{"uuid": s.uuid, "total": list(s.total_frame_nums), "tp": list(s.tp_frame_nums), "fp": list(s.fp_frame_nums),
             "tn": list(s.tn_frame_nums), "fn": list(s.fn_frame_nums)} for s in get_object_status(frames)]


def _rate(x):
    """a rate as a JSON value: float, or the string 'inf' / 'nan'"""
    x = float(x)
    return "inf" if math.isinf(x) else "nan" if math.isnan(x) else x


def _status_rates(frames):
    """the REAL GroundTruthStatus.get_status_rates() / StatusRate.rate of every record and get_scene_rates() of the list"""
    from perception_eval.common.status import get_scene_rates
    from perception_eval.evaluation.result.perception_frame_result import get_object_status

    sts = get_object_status(frames)
    recs = []
    for s in sts:
        rs = s.get_status_rates()
        recs.append({"uuid": s.uuid, "order": [str(r.status) for r in rs], "rates": [_rate(r.rate) for r in rs],
                     "counts": [len(r.status_frame_nums) for r in rs], "total": len(s.total_frame_nums)})
    return {"records": recs, "scene": [_rate(x) for x in get_scene_rates(sts)]}


def _run_area(case):
    """kind 'area': the real generate_area_points + get_area_idx on a real object at the ego-frame position (x, y)"""
    from perception_eval.common.schema import FrameID
    from perception_eval.common.transform import HomogeneousMatrix, TransformDict
    from perception_eval.evaluation.result.object_result import DynamicObjectWithPerceptionResult
    from perception_eval.tool.utils import generate_area_points, get_area_idx

    o = _mk({"u": "o", "l": "car", "x": case["x"], "y": case["y"], "yaw": 0, "v": None, "w": 2.0, "len": 4.0}, 1000, "base_link", None)
    tf = TransformDict([HomogeneousMatrix((0.0, 0.0, 0.0), (1.0, 0.0, 0.0, 0.0), FrameID.BASE_LINK, FrameID.MAP)])
    try:
        ur, bl = generate_area_points(case["division"], case["max_x"], case["max_y"])
        out = {"areas": {"ur": [[float(a), float(b)] for a, b in ur], "bl": [[float(a), float(b)] for a, b in bl]}}
    except Exception as e:
        return {"err": type(e).__name__, "stage": "generate_area_points"}
    try:
        arg = DynamicObjectWithPerceptionResult(o, None, transforms=tf) if case.get("wrapped") else o
        r = get_area_idx(arg, ur, bl, tf)
        out["area"] = None if r is None else int(r)
    except Exception as e:
        out["err"] = type(e).__name__
        out["stage"] = "get_area_idx"
    return out


def _run_rows(case):
    """kind 'rows': the real PerceptionAnalyzer3D.add on ONE frame whose pass/fail lists hold real results / objects"""
    from types import SimpleNamespace

    from perception_eval.common.schema import FrameID
    from perception_eval.common.transform import HomogeneousMatrix, TransformDict
    from perception_eval.evaluation.result.object_result import DynamicObjectWithPerceptionResult as Res
    from perception_eval.tool import PerceptionAnalyzer3D

    cfg = _config({"task": "detection", "frame_id": "base_link", "labels": ["car", "pedestrian"], "policy": "default",
                   "range": {"kind": "xy", "max_x": 96.0, "max_y": 96.0}})
    tf = TransformDict([HomogeneousMatrix((0.0, 0.0, 0.0), (1.0, 0.0, 0.0, 0.0), FrameID.BASE_LINK, FrameID.MAP)])
    mk = lambda u, x: _mk({"u": u, "l": "car", "x": x, "y": 5.0, "yaw": 0, "v": [1.0, 0.0], "w": 2.0, "len": 4.0}, 1000, "base_link", None)  # noqa: E731
    a, b, c, d = case["counts"]
    lists = [[], [], [], []]
    j = 0
    for kind, cnt in enumerate((a, b, c, d)):
        for i in range(cnt):
            e, g = mk(f"e{j}", 10.0 + 20.0 * j), mk(f"g{j}", 10.5 + 20.0 * j)
            if kind < 2:
                none = (case["tp_none"] if kind == 0 else case["fp_none"])[i]
                lists[kind].append(Res(e, None if none else g, transforms=tf))
            else:
                lists[kind].append(g)
            j += 1
    pf = SimpleNamespace(tp_object_results=lists[0], fp_object_results=lists[1], tn_objects=lists[2], fn_objects=lists[3])
    frame = SimpleNamespace(frame_name="7", pass_fail_result=pf, frame_ground_truth=SimpleNamespace(transforms=tf))
    try:
        an = PerceptionAnalyzer3D(cfg)
        an.add([frame])
        rows = _rows(an.df)
    except Exception as e:
        return {"err": type(e).__name__, "stage": "add"}
    return {"rows": rows}


def run_impl(case):
    if case.get("kind") == "area":
        return _run_area(case)
    if case.get("kind") == "rows":
        return _run_rows(case)
    from perception_eval.tool import PerceptionAnalyzer3D

    try:
        cfg, scenes = _evaluate(case)
    except Exception as e:
        return {"err": type(e).__name__, "stage": "manager"}
    out = {"frames": [[_frame_lists(fr) for fr in sc] for sc in scenes]}
    try:
        an = PerceptionAnalyzer3D(cfg, num_area_division=case["division"])
    except Exception as e:
        out["err"] = type(e).__name__
        out["stage"] = "analyzer"
        return out
    out["areas"] = {"ur": [[float(a), float(b)] for a, b in an.upper_rights], "bl": [[float(a), float(b)] for a, b in an.bottom_lefts]}
    try:
        for sc in scenes:
            an.add(sc)
    except Exception as e:
        out["err"] = type(e).__name__
        out["stage"] = "add"
        return out
    out["num_scene"] = an.num_scene
    out["num_frame"] = an.num_frame
    out["rows"] = _rows(an.df)
    num = {}
    for k, attr in (("gt", "num_ground_truth"), ("est", "num_estimation"), ("tp", "num_tp"), ("fp", "num_fp"), ("tn", "num_tn"), ("fn", "num_fn")):
        try:
            num[k] = int(getattr(an, attr))
        except Exception as e:
            num[k] = {"err": type(e).__name__}
    out["num"] = num
    out["analyses"] = [_analysis(an, sel, case["labels"]) for sel in case["sels"]]
    try:
        out["status"] = {"scenes": [_status(sc) for sc in scenes], "all": _status([f for sc in scenes for f in sc])}
    except Exception as e:
        out["status"] = {"err": type(e).__name__}
    try:
        from perception_eval.common.status import get_scene_rates

        out["status_rates"] = {"scenes": [_status_rates(sc) for sc in scenes], "all": _status_rates([f for sc in scenes for f in sc]),
                               "empty": [_rate(x) for x in get_scene_rates([])]}
    except Exception as e:
        out["status_rates"] = {"err": type(e).__name__}
    return out


# ----------------------------------------------------------------------------- model side

_EMPTY_RAISES = None


def _empty_raises():
    """does a num_* property of the analyzer under test raise on the initial empty table (finding N2)?"""
    global _EMPTY_RAISES
    if _EMPTY_RAISES is None:
        from perception_eval.tool import PerceptionAnalyzer3D

        case = {"task": "detection", "frame_id": "base_link", "labels": ["car"], "policy": "default",
                "range": {"kind": "xy", "max_x": 100.0, "max_y": 100.0}}
        an = PerceptionAnalyzer3D(_config(case))
        an.add([])
        try:
            _EMPTY_RAISES = not (int(an.num_tp) == 0)
        except Exception:
            _EMPTY_RAISES = True
    return _EMPTY_RAISES


def _tau(k):
    """half-turns of the float yaw the real object is built with"""
    return Fraction(_yaw(k)) / Fraction(PI)


def _norm_k(k):
    """representative in (-16, 16] of a yaw given in sixteenths of a half-turn"""
    k = k % 32
    return k - 32 if k > 16 else k


def _mobj(o):
    return {"u": o["u"], "l": o["l"], "x": core.q(o["x"]), "y": core.q(o["y"]), "yaw": core.q(_tau(_norm_k(o["yaw"]))),
            "w": core.q(o["w"]), "len": core.q(o["len"]),
            "vx": None if o["v"] is None else core.q(o["v"][0]), "vy": None if o["v"] is None else core.q(o["v"][1])}


def _mraw(o, frame_id, ego):
    """the object AS GIVEN to the real code: the very floats of `_render` as exact rationals, the yaw of that frame in half-turns"""
    x, y, z, _yawf = _render(o, frame_id, ego)
    k = _norm_k(o["yaw"] + (ego[2] if frame_id == "map" else 0))
    return {"frame": "map" if frame_id == "map" else "base_link", "u": o["u"], "l": o["l"], "x": core.q(x), "y": core.q(y), "z": core.q(z),
            "yaw": core.q(_tau(k)), "w": core.q(o["w"]), "len": core.q(o["len"]),
            "vx": None if o["v"] is None else core.q(o["v"][0]), "vy": None if o["v"] is None else core.q(o["v"][1])}


def _mpose(frame_id, ego):
    """the frame's ego pose base_link -> map (identity for a base_link evaluation): rotation as the rationals of cos / sin, yaw in half-turns"""
    if frame_id != "map":
        return {"c": "1", "s": "0", "tau": "0", "x": "0", "y": "0", "z": "0"}
    a = _yaw(ego[2])
    return {"c": core.q(math.cos(a)), "s": core.q(math.sin(a)), "tau": core.q(_tau(_norm_k(ego[2]))), "x": core.q(ego[0]), "y": core.q(ego[1]),
            "z": core.q(ego[3] if len(ego) > 3 else 0.0)}


def _objs_of(fr):
    d = {}
    for o in fr["gts"] + fr["ests"]:
        d[o["u"]] = o
    return d


def _msel(sel):
    def lst(v):
        return None if v is None else (list(v) if isinstance(v, (list, tuple)) else [v])

    return {"labels": lst(sel.get("label")), "scenes": lst(sel.get("scene")), "frames": lst(sel.get("frame")),
            "areas": lst(sel.get("area")), "statuses": lst(sel.get("status")), "uuids": lst(sel.get("uuid")),
            "distance": None if sel.get("distance") is None else [core.q(sel["distance"][0]), core.q(sel["distance"][1])]}


def model_requests(case, out):
    if case.get("kind") in ("area", "rows"):
        return []  # these inputs are judged by the oracle; their tie to the model is the table theorem
    if "frames" not in out or "rows" not in out:
        return []
    mx, my = _area_max(case)
    scenes = []
    pf_reqs = []
    for sc_case, sc_out in zip(case["scenes"], out["frames"]):
        frames = []
        for fr, lists in zip(sc_case, sc_out):
            objs = _objs_of(fr)
            mo = lambda u: None if u is None else _mobj(objs[u])  # noqa: E731
            frames.append({"n": lists["n"], "tp": [[mo(e), mo(g)] for e, g in lists["tp"]], "fp": [[mo(e), mo(g)] for e, g in lists["fp"]],
                           "tn": [mo(u) for u in lists["tn"]], "fn": [mo(u) for u in lists["fn"]], "critical": [mo(u) for u in lists["critical"]]})
            pf_reqs.append({"op": "passfail", "n": lists["n"], "critical": [mo(u) for u in lists["critical"]],
                            "results": [{"est": mo(e), "gt": mo(g), "correct": c} for e, g, c in lists["results"]]})
        scenes.append(frames)
    req = {"op": "analyze", "empty_raises": _empty_raises(), "division": case["division"], "max_x": core.q(mx), "max_y": core.q(my), "labels": case["labels"],
           "scenes": scenes, "sels": [_msel(s) for s in case["sels"]]}
    # the same pass/fail lists with the objects AS GIVEN (base_link or map frame) and the frames' ego poses: the model transforms
    raw_scenes = []
    for sc_case, sc_out in zip(case["scenes"], out["frames"]):
        frames = []
        for fr, lists in zip(sc_case, sc_out):
            objs = _objs_of(fr)
            ego = fr.get("ego") or [0.0, 0.0, 0]
            mr = lambda u: None if u is None else _mraw(objs[u], case["frame_id"], ego)  # noqa: E731
            frames.append({"ego": _mpose(case["frame_id"], ego), "n": lists["n"], "tp": [[mr(e), mr(g)] for e, g in lists["tp"]],
                           "fp": [[mr(e), mr(g)] for e, g in lists["fp"]], "tn": [mr(u) for u in lists["tn"]], "fn": [mr(u) for u in lists["fn"]],
                           "critical": [mr(u) for u in lists["critical"]]})
        raw_scenes.append(frames)
    raw_req = {"op": "raw_rows", "division": case["division"], "max_x": core.q(mx), "max_y": core.q(my), "scenes": raw_scenes}
    return [req] + pf_reqs + [raw_req]


def _angle_close(a, b):
    d = (a - b) % (2 * PI)
    return min(d, 2 * PI - d) <= 1e-9


def _yaw_pi_pairs(case, out):
    """does some paired row have a yaw difference of exactly one half-turn (wrap boundary)?"""
    for sc_case, sc_out in zip(case["scenes"], out["frames"]):
        for fr, lists in zip(sc_case, sc_out):
            objs = _objs_of(fr)
            for e, g in lists["tp"] + lists["fp"]:
                if g is not None and abs(_norm_k(objs[g]["yaw"]) - _norm_k(objs[e]["yaw"])) == 16:
                    return True
    return False


def _on_boundary(case):
    """map-frame case with an object exactly on an area or distance boundary (float round trip may flip)"""
    if case["frame_id"] != "map":
        return False
    mx, my = _area_max(case)
    bx = {Fraction(mx) * s for s in (Fraction(1), Fraction(1, 3), Fraction(-1, 3), Fraction(-1))}
    by = {Fraction(my) * s for s in (Fraction(1), Fraction(1, 3), Fraction(-1, 3), Fraction(-1))}
    ds = set()
    for s in case["sels"]:
        if s.get("distance") is not None:
            ds |= {Fraction(s["distance"][0]) ** 2, Fraction(s["distance"][1]) ** 2}
    for sc in case["scenes"]:
        for fr in sc:
            for o in fr["gts"] + fr["ests"]:
                x, y = Fraction(o["x"]), Fraction(o["y"])
                if x in bx or y in by or (x * x + y * y) in ds:
                    return True
    return False


def compare(case, out, resps):
    if not resps:
        return None
    r = resps[0]
    if "err" in out or "err" in r:
        return None if out.get("err") == r.get("err") and out.get("stage") in (None, "analyzer") else f"impl {out.get('err')}@{out.get('stage')} != model {r.get('err')}"
    if _on_boundary(case):
        return "skip"
    # areas
    for k in ("ur", "bl"):
        a, b = out["areas"][k], r["areas"][k]
        if len(a) != len(b) or any(not core.close(p[0], core.unq(q[0])) or not core.close(p[1], core.unq(q[1])) for p, q in zip(a, b)):
            return f"area points {k}: impl {a} != model {b}"
    if r.get("area_error"):
        return "model: get_area_idx matched more than one area"
    if (out["num_scene"], out["num_frame"]) != (r["num_scene"], r["num_frame"]):
        return f"num_scene/num_frame impl {(out['num_scene'], out['num_frame'])} != model {(r['num_scene'], r['num_frame'])}"
    # rows
    rows = out["rows"]
    if isinstance(rows, dict):
        return f"odd number of rows {rows}"
    if len(rows) != len(r["rows"]):
        return f"table has {len(rows)} row pairs, model {len(r['rows'])}"
    for a, b in zip(rows, r["rows"]):
        if a[0] != b[0] or a[3] != b[0] or a[1] != "ground_truth" or a[4] != "estimation":
            return f"row index/side impl {a[:2]},{a[3:5]} != model index {b[0]}"
        for side, ca, cb in (("ground_truth", a[2], b[1]), ("estimation", a[5], b[2])):
            if (ca is None) != (cb is None):
                return f"row {a[0]} {side}: impl {'NaN' if ca is None else ca['st']} vs model {'NaN' if cb is None else cb['st']}"
            if ca is None:
                continue
            for k in ("st", "u", "l", "area", "frame", "scene"):
                if ca[k] != cb[k]:
                    return f"row {a[0]} {side} column {k}: impl {ca[k]!r} != model {cb[k]!r}"
            if not core.close(ca["x"], core.unq(cb["x"])) or not core.close(ca["y"], core.unq(cb["y"])):
                return f"row {a[0]} {side} position: impl ({ca['x']},{ca['y']}) != model ({float(core.unq(cb['x']))},{float(core.unq(cb['y']))})"
            if not _angle_close(ca["yaw"], float(core.unq(cb["yaw"])) * PI):
                return f"row {a[0]} {side} yaw: impl {ca['yaw']} != model {float(core.unq(cb['yaw'])) * PI}"
    # counts
    for k in ("gt", "est", "tp", "fp", "tn", "fn"):
        if out["num"][k] != r["num"][k]:
            return f"num_{k}: impl {out['num'][k]} != model {r['num'][k]}"
    # analyses
    yaw_pi = _yaw_pi_pairs(case, out)
    for i, (a, b) in enumerate(zip(out["analyses"], r["analyses"])):
        tag = f"selection {i} {case['sels'][i]}"
        if "err" in a or "err" in b:
            if a.get("err") != b.get("err"):
                return f"{tag}: impl {a.get('err', 'ok')} != model {b.get('err', 'ok')}"
            continue
        # the selected sub-table itself: which pairs, counts over it, row-wise keyword counts
        ms = (r.get("selections") or [None] * len(out["analyses"]))[i]
        sa = a.get("sel")
        if ms is not None and sa is not None and "err" not in ms:
            if not sa["whole_pairs"]:
                return f"{tag}: the selected table splits a row pair (index {sa['index']})"
            if sa["index"] != ms["index"]:
                return f"{tag}: selected row pairs impl {sa['index']} != model {ms['index']}"
            if "num" in sa and sa["num"] != ms["num"]:
                return f"{tag}: counts over the selection impl {sa['num']} != model {ms['num']}"
            if "paired" in sa and sa["paired"] != ms["paired"]:
                return f"{tag}: paired rows of the selection impl {sa['paired']} != model {ms['paired']}"
            if "rowwise" in sa and sa["rowwise"] != ms["rowwise"]:
                return f"{tag}: row-wise keyword counts impl {sa['rowwise']} != model {ms['rowwise']}"
        if a.get("none") or b.get("none"):
            if bool(a.get("none")) != bool(b.get("none")):
                return f"{tag}: impl none={a.get('none')} model none={b.get('none')}"
            continue
        mr = {x[0]: x[1:] for x in b["ratio"]}
        if list(a["ratio"]) != [x[0] for x in b["ratio"]]:
            return f"{tag}: ratio labels impl {list(a['ratio'])} != model {[x[0] for x in b['ratio']]}"
        for l, vals in a["ratio"].items():
            for name, v, w in zip(("TP", "FP", "TN", "FN"), vals, mr[l]):
                if not core.close(v, core.unq(w)):
                    return f"{tag}: rate {l}/{name} impl {v} != model {w}"
        me = {x[0]: {c: s for c, s in x[1]} for x in b["error"]}
        for l, cols in a["error"].items():
            for c, s in cols.items():
                ms = me[l][c]
                if (s is None) != (ms is None):
                    return f"{tag}: error {l}/{c} impl {s} vs model {ms}"
                if s is None:
                    continue
                k = PI if c == "yaw" else 1.0
                ref = {"average": float(core.unq(ms["average"])) * k, "rms": math.sqrt(float(core.unq(ms["rms2"]))) * k,
                       "std": math.sqrt(float(core.unq(ms["var"]))) * k, "max": float(core.unq(ms["max"])) * k,
                       "min": float(core.unq(ms["min"])) * k}
                for key in ("average", "rms", "std", "max", "min"):
                    if c == "yaw" and yaw_pi and key in ("average", "std"):
                        continue
                    tol = 1e-7 if key == "std" else 1e-9  # sqrt of a variance that is 0 up to rounding
                    if not core.close(s[key], ref[key], abs_=tol):
                        return f"{tag}: error {l}/{c}/{key} impl {s[key]} != model {ref[key]}"
        if a["cm"] != b["cm"]:
            return f"{tag}: confusion matrix impl {a['cm']} != model {b['cm']}"
        msel = (r.get("selections") or [None] * len(out["analyses"]))[i]
        if a["cm"] is not None and msel is not None and "cm_labels" in msel and a["cm_labels"] != msel["cm_labels"]:
            return f"{tag}: index of the confusion matrix impl {a['cm_labels']} != model {msel['cm_labels']}"
    # get_object_status
    if "err" in out["status"]:
        return f"get_object_status raised {out['status']['err']}"
    if out["status"]["all"] != r["status"]["all"] or out["status"]["scenes"] != r["status"]["scenes"]:
        return f"get_object_status impl {out['status']['all']} != model {r['status']['all']}"
    # GroundTruthStatus.get_status_rates / StatusRate.rate / get_scene_rates
    sr = out.get("status_rates")
    if sr is not None and "status_rates" in r:
        if "err" in sr:
            return f"get_status_rates / get_scene_rates raised {sr['err']}"
        groups = [(f"scene {i}", a, b, c) for i, (a, b, c) in enumerate(zip(sr["scenes"], r["status_rates"]["scenes"], r["scene_rates"]["scenes"]))]
        groups.append(("all scenes", sr["all"], r["status_rates"]["all"], r["scene_rates"]["all"]))
        for name, a, mrecs, mscene in groups:
            if [x["uuid"] for x in a["records"]] != [x["uuid"] for x in mrecs]:
                return f"{name}: status-rate records impl {[x['uuid'] for x in a['records']]} != model {[x['uuid'] for x in mrecs]}"
            for x, y in zip(a["records"], mrecs):
                if x["order"] != ["TP", "FP", "TN", "FN"]:
                    return f"{name}: get_status_rates order {x['order']}"
                for st, v, w in zip(x["order"], x["rates"], y["rates"]):
                    if (v == "inf") != (w == "inf") or v == "nan" or (v != "inf" and not core.close(v, core.unq(w), abs_=1e-12)):
                        return f"{name}: status rate {x['uuid']}/{st} impl {v} != model {w}"
            ms = ["inf"] * 4 if mscene == "inf" else mscene
            for st, v, w in zip(("TP", "FP", "TN", "FN"), a["scene"], ms):
                if (v == "inf") != (w == "inf") or v == "nan" or (v != "inf" and not core.close(v, core.unq(w), abs_=1e-12)):
                    return f"{name}: scene rate {st} impl {v} != model {w}"
        if (sr["empty"] == ["inf"] * 4) != (r["scene_rates"]["empty"] == "inf"):
            return f"get_scene_rates([]) impl {sr['empty']} != model {r['scene_rates']['empty']}"
    # PassFailResult.evaluate
    k = 1
    for sc in out["frames"]:
        for lists in sc:
            b = resps[k]
            k += 1
            for key in ("tp", "fp", "tn", "fn"):
                if lists[key] != b[key]:
                    return f"pass/fail list {key} of frame {lists['n']}: impl {lists[key]} != model {b[key]}"
    # the table from the objects AS GIVEN (the model applies transform((frame, BASE_LINK), ...) itself): x, y, yaw, area, distance
    if k < len(resps) and "rows" in resps[k]:
        rr = resps[k]
        if rr.get("area_error"):
            return "model (raw objects): get_area_idx matched more than one area"
        if len(rr["rows"]) != len(rows):
            return f"table has {len(rows)} row pairs, model (raw objects) {len(rr['rows'])}"
        for a, b, d2 in zip(rows, rr["rows"], rr["dist2"]):
            for side, ca, cb, dd in (("ground_truth", a[2], b[1], d2[0]), ("estimation", a[5], b[2], d2[1])):
                if (ca is None) != (cb is None):
                    return f"row {a[0]} {side}: impl {'NaN' if ca is None else ca['st']} vs model (raw objects) {'NaN' if cb is None else cb['st']}"
                if ca is None:
                    continue
                for key in ("st", "u", "l", "area", "frame", "scene"):
                    if ca[key] != cb[key]:
                        return f"row {a[0]} {side} column {key}: impl {ca[key]!r} != model (raw objects) {cb[key]!r}"
                if not core.close(ca["x"], core.unq(cb["x"])) or not core.close(ca["y"], core.unq(cb["y"])):
                    return f"row {a[0]} {side} ego-frame position: impl ({ca['x']},{ca['y']}) != model transform of the given object ({float(core.unq(cb['x']))},{float(core.unq(cb['y']))})"
                if not _angle_close(ca["yaw"], float(core.unq(cb["yaw"])) * PI):
                    return f"row {a[0]} {side} ego-frame yaw: impl {ca['yaw']} != model transform of the given object {float(core.unq(cb['yaw'])) * PI}"
                if ca.get("dist") is not None and not core.close(ca["dist"], math.sqrt(float(core.unq(dd)))):
                    return f"row {a[0]} {side} distance: impl {ca['dist']} != model sqrt({dd})"
    return None


# ----------------------------------------------------------------------------- oracle (independent of the model)

def _wrap(d):
    while d > PI:
        d -= 2 * PI
    while d < -PI:
        d += 2 * PI
    return d


def _summ(errs):
    n = len(errs)
    if n == 0:
        return None
    avg = math.fsum(errs) / n
    return {"average": avg, "rms": math.sqrt(math.fsum(e * e for e in errs) / n),
            "max": max(abs(e) for e in errs), "min": min(abs(e) for e in errs)}


def _items(case, out):
    """the row pairs the frames' pass/fail lists ask for, in table order: (status, gt object | None, estimate | None, scene, frame)"""
    items = []
    for si, (sc_case, sc_out) in enumerate(zip(case["scenes"], out["frames"])):
        for fr, l in zip(sc_case, sc_out):
            objs = _objs_of(fr)
            for e, g in l["tp"]:
                items.append(("TP", None if g is None else objs[g], objs[e], si, l["n"]))
            for e, g in l["fp"]:
                items.append(("FP", None if g is None else objs[g], objs[e], si, l["n"]))
            for g in l["tn"]:
                items.append(("TN", objs[g], None, si, l["n"]))
            for g in l["fn"]:
                items.append(("FN", objs[g], None, si, l["n"]))
    return items


def _vals(v):
    return list(v) if isinstance(v, (list, tuple)) else [v]


def _dist2(o):
    return Fraction(o["x"]) ** 2 + Fraction(o["y"]) ** 2


def _in_range(o, dist, map_frame):
    """does the ego-frame distance of the object lie in [d0, d1)?  True / False / None = too close to a bound for the
    floats of the real code to be trusted (map frame: positions go through a float round trip)"""
    d0, d1 = Fraction(dist[0]), Fraction(dist[1])
    d2 = _dist2(o)
    r = math.sqrt(d2)
    for b in (d0, d1):
        if b >= 0:
            exact = d2 == b * b
            if (exact and map_frame) or (not exact and abs(r - float(b)) < (1e-6 if map_frame else 1e-9)):
                return None
    return (d0 <= 0 or d0 * d0 <= d2) and (d1 > 0 and d2 < d1 * d1)


def _row_area(out, k):
    row = out["rows"][k]
    c = row[5] if row[5] is not None else row[2]
    return None if c is None else c["area"]


def _key_hit(key, vals, st, o, si, n, area):
    """does ONE row (object o of an item with status st in scene si, frame n, area) carry one of the values of a keyword?"""
    if key == "label":
        return o["l"] in vals
    if key == "uuid":
        return o["u"] in vals
    if key == "status":
        return st in vals
    if key == "scene":
        return si in vals
    if key == "frame":
        return n in vals
    if key == "area":
        return area is not None and area in vals
    raise KeyError(key)


def _ref_select(case, out, sel, items):
    """the documented pair predicate, evaluated on the generated scene: a pair is selected iff every given keyword is carried
    by SOME row of the pair and (distance given) SOME row lies in [d0, d1) -> (indices surely selected, indices undecidable)"""
    kw = _sel_kwargs(sel)
    dist = kw.pop("distance", None)
    map_frame = case["frame_id"] == "map"
    sure, unsure = [], []
    for k, (st, g, e, si, n) in enumerate(items):
        cells = [o for o in (g, e) if o is not None]
        area = _row_area(out, k)
        if not all(any(_key_hit(key, _vals(v), st, o, si, n, area) for o in cells) for key, v in kw.items()):
            continue
        if dist is None:
            sure.append(k)
            continue
        states = [_in_range(o, dist, map_frame) for o in cells]
        if any(x is True for x in states):
            sure.append(k)
        elif any(x is None for x in states):
            unsure.append(k)
    return sure, unsure


def _ref_rowwise(case, out, sel, items):
    """get_num_*(**kwargs): the ROWS (not pairs) that carry every keyword"""
    kw = _sel_kwargs(sel)
    kw.pop("distance", None)
    cnt = {"est": 0, "tp": 0, "fp": 0, "tn": 0, "fn": 0}
    for k, (st, g, e, si, n) in enumerate(items):
        area = _row_area(out, k)
        if e is not None and all(_key_hit(key, _vals(v), st, e, si, n, area) for key, v in kw.items()):
            cnt["est"] += 1
            if st in ("TP", "FP"):
                cnt[st.lower()] += 1
        if g is not None and st in ("TN", "FN") and all(_key_hit(key, _vals(v), st, g, si, n, area) for key, v in kw.items()):
            cnt[st.lower()] += 1
    return cnt


def _describe(items, k):
    st, g, e, si, n = items[k]
    f = lambda o: "-" if o is None else f"{o['u']}@{math.sqrt(_dist2(o)):.4f}m/{o['l']}"  # noqa: E731
    return f"pair {k} ({st}, scene {si}, frame {n}: ground truth {f(g)}, estimate {f(e)})"


def _check(case, out):
    """the property statement on the real outputs -> list of (tag, info, message)"""
    fails = []
    if "err" in out:
        return [("exception", None, f"{out.get('stage')} raised {out['err']}")]
    frames = [(si, fr, lists) for si, (sc_case, sc_out) in enumerate(zip(case["scenes"], out["frames"])) for fr, lists in zip(sc_case, sc_out)]
    items = sum(len(l["tp"]) + len(l["fp"]) + len(l["tn"]) + len(l["fn"]) for _, _, l in frames)
    # --- one row pair per TP/FP/TN/FN item, in ego-frame coordinates
    rows = out["rows"]
    if isinstance(rows, dict) or len(rows) != items:
        fails.append(("layout", None, f"table has {rows if isinstance(rows, dict) else len(rows)} row pairs for {items} items"))
    else:
        k = 0
        for si, fr, l in frames:
            objs = _objs_of(fr)
            exp = [("TP", g, e) for e, g in l["tp"]] + [("FP", g, e) for e, g in l["fp"]] + [("TN", g, None) for g in l["tn"]] + [("FN", g, None) for g in l["fn"]]
            for st, g, e in exp:
                row = rows[k]
                if row[0] != k or row[3] != k or row[1] != "ground_truth" or row[4] != "estimation":
                    fails.append(("layout", None, f"row pair {k}: index/side {row[:2]} {row[3:5]}"))
                for side, u, cell in (("ground_truth", g, row[2]), ("estimation", e, row[5])):
                    if (u is None) != (cell is None):
                        fails.append(("layout", None, f"row {k} {side}: expected {'NaN row' if u is None else u}, got {cell}"))
                    elif u is not None:
                        o = objs[u]
                        if cell["st"] != st or cell["u"] != u or cell["l"] != o["l"] or cell["frame"] != l["n"] or cell["scene"] != si:
                            fails.append(("layout", None, f"row {k} {side}: expected {st} {u} {o['l']} frame {l['n']} scene {si}, got {cell}"))
                        if not (core.close(cell["x"], o["x"]) and core.close(cell["y"], o["y"]) and _angle_close(cell["yaw"], _yaw(o["yaw"]))):
                            fails.append(("ego", None, f"row {k} {side} {u}: ego-frame pose should be ({o['x']},{o['y']},{_yaw(_norm_k(o['yaw']))}), got ({cell['x']},{cell['y']},{cell['yaw']})"))
                        if not (-PI - 1e-12 <= cell["yaw"] <= PI + 1e-12):
                            fails.append(("yaw_range", None, f"row {k} {side} yaw {cell['yaw']} outside [-pi, pi]"))
                k += 1
    # --- counts
    num = out["num"]
    want = {"tp": sum(len(l["tp"]) for _, _, l in frames), "fp": sum(len(l["fp"]) for _, _, l in frames),
            "tn": sum(len(l["tn"]) for _, _, l in frames), "fn": sum(len(l["fn"]) for _, _, l in frames),
            "est": sum(len(l["results"]) for _, _, l in frames), "gt": sum(len(l["critical"]) for _, _, l in frames)}
    # FP results carrying an ordinary ground truth (the characterisation of F11)
    f11_pairs = []
    for si, fr, l in frames:
        objs = _objs_of(fr)
        for e, g in l["fp"]:
            if g is not None and objs[g]["l"] != FPL:
                f11_pairs.append((si, l["n"], g))
    for k in ("tp", "fp", "tn", "fn", "est", "gt"):
        v = num[k]
        if isinstance(v, dict):
            if items == 0:
                fails.append(("empty_counts", v["err"], f"num_{k} raised {v['err']} on an empty table (should be 0)"))
            else:
                fails.append(("exception", None, f"num_{k} raised {v['err']}"))
        elif v != want[k]:
            if k == "gt":
                fails.append(("gt_count", v - want[k] == len(f11_pairs) and len(f11_pairs) > 0,
                              f"num_ground_truth = {v}, critical ground truths = {want[k]} (FP results carrying an ordinary GT: {len(f11_pairs)})"))
            else:
                fails.append(("counts", None, f"num_{k} = {v}, pass/fail lists give {want[k]}"))
    # --- analyses: every selection must be exactly the row pairs satisfying the documented predicate, and the statement
    #     about counts / errors / confusion matrix must hold for the selected sub-table
    layout_ok = not any(f[0] == "layout" for f in fails)
    items_l = _items(case, out) if layout_ok else None
    for i, (sel, a) in enumerate(zip(case["sels"], out["analyses"])):
        tag = f"selection {i} {sel}"
        if "err" in a:
            if not (a["err"] == "AssertionError" and sel.get("distance") is not None and sel["distance"][0] >= sel["distance"][1]):
                fails.append(("exception", None, f"{tag}: raised {a['err']}"))
            continue
        sa = a.get("sel")
        K = None
        if layout_ok and sa is not None:
            sure, unsure = _ref_select(case, out, sel, items_l)
            got = sa["index"]
            if not sa["whole_pairs"]:
                fails.append(("selection", None, f"{tag}: the selected table splits a row pair (rows of pairs {got})"))
            elif sorted(set(got)) != got or not set(sure) <= set(got) or not set(got) <= set(sure) | set(unsure):
                extra = sorted(set(got) - set(sure) - set(unsure))
                missing = sorted(set(sure) - set(got))
                msg = f"{tag}: selected row pairs {got}, the pairs satisfying the selection are {sure}"
                if extra:
                    msg += f"; wrongly kept: {_describe(items_l, extra[0])}" if extra[0] < len(items_l) else f"; wrongly kept index {extra[0]}"
                if missing:
                    msg += f"; wrongly dropped: {_describe(items_l, missing[0])}"
                fails.append(("selection", None, msg))
            else:
                K = got
            if a.get("none") and sure:
                fails.append(("selection", None, f"{tag}: nothing to analyse although {len(sure)} row pairs satisfy the selection"))
            if K is not None and not a.get("none") and not K:
                fails.append(("selection", None, f"{tag}: a result is reported although no row pair is selected"))
            if "rowwise" in sa:
                want_rw = _ref_rowwise(case, out, sel, items_l)
                for key, w in want_rw.items():
                    v = sa["rowwise"][key]
                    if isinstance(v, dict):
                        fails.append(("exception", None, f"{tag}: get_num_{key}(**selection) raised {v['err']}"))
                    elif v != w:
                        fails.append(("sel_counts", None, f"{tag}: get_num_{key}(**selection) = {v}, the pass/fail lists hold {w} such rows"))
        if K is not None and "num" in sa:
            sts = [items_l[k][0] for k in K]
            want_n = {"tp": sts.count("TP"), "fp": sts.count("FP"), "tn": sts.count("TN"), "fn": sts.count("FN")}
            want_n["est"] = want_n["tp"] + want_n["fp"]
            for key, w in want_n.items():
                v = sa["num"][key]
                if isinstance(v, dict):
                    fails.append(("exception", None, f"{tag}: get_num_{key}(df=selection) raised {v['err']}"))
                elif v != w:
                    fails.append(("sel_counts", None, f"{tag}: {key} count over the selection = {v}, the selected items of the pass/fail lists give {w}"))
            pw = sum(1 for k in K if items_l[k][1] is not None and items_l[k][2] is not None)
            if sa.get("paired") != pw:
                fails.append(("sel_counts", None, f"{tag}: get_pair_results gives {sa.get('paired')} paired rows, the selected items {pw}"))
        if a.get("none"):
            if not _sel_kwargs(sel) and items > 0:
                fails.append(("layout", None, f"{tag}: nothing to analyse although the table has {items} items"))
            continue
        for l, vals in a["ratio"].items():
            for name, v in zip(("TP", "FP", "TN", "FN"), vals):
                if not (0.0 <= v <= 1.0):
                    fails.append(("rates", (i, l, name, v), f"{tag}: rate {l}/{name} = {v} outside [0,1]"))
        if a["cm"] is None:
            if a["paired_rows"] != 0:
                fails.append(("cm_sum", None, f"{tag}: no confusion matrix although {a['paired_rows']} rows are paired"))
        else:
            tot = sum(sum(r) for r in a["cm"])
            if tot != a["paired_rows"]:
                fails.append(("cm_sum", None, f"{tag}: confusion matrix sums to {tot}, paired rows {a['paired_rows']}"))
            if len(a["cm"]) != len(a["cm_labels"]) or any(len(r) != len(a["cm_labels"]) for r in a["cm"]):
                fails.append(("cm_sum", None, f"{tag}: confusion matrix is not square over its index {a['cm_labels']}"))
        for l, cols in a["error"].items():
            y = cols["yaw"]
            if y is not None and y["max"] > PI + 1e-9:
                fails.append(("yaw_range", None, f"{tag}: yaw error {l} max {y['max']} > pi"))
        # reference recomputation from the generated scene, on the selected items
        if K is not None:
            pairs = [(items_l[k][1], items_l[k][2]) for k in K if items_l[k][1] is not None and items_l[k][2] is not None]
            tot_pairs = len(pairs)
            if a["paired_rows"] != tot_pairs or (a["cm"] is not None and sum(sum(r) for r in a["cm"]) != tot_pairs) or (a["cm"] is None and tot_pairs):
                fails.append(("cm_sum", None, f"{tag}: paired rows {a['paired_rows']} / matrix total, the selected items hold {tot_pairs} paired results"))
            for lab in ["ALL"] + case["labels"]:
                ps = [p for p in pairs if lab == "ALL" or p[0]["l"] == lab]
                for c in COLS:
                    if c in ("x", "y"):
                        errs = [g[c] - e[c] for g, e in ps]
                    elif c == "yaw":
                        errs = [_wrap(_yaw(_norm_k(g["yaw"])) - _yaw(_norm_k(e["yaw"]))) for g, e in ps]
                    elif c == "length":
                        errs = [g["len"] - e["len"] for g, e in ps]
                    elif c == "width":
                        errs = [g["w"] - e["w"] for g, e in ps]
                    else:
                        j = 0 if c == "vx" else 1
                        errs = [g["v"][j] - e["v"][j] for g, e in ps if g["v"] is not None and e["v"] is not None]
                    ref = _summ(errs)
                    got = a["error"][lab][c]
                    if (ref is None) != (got is None):
                        fails.append(("error", None, f"{tag}: error {lab}/{c}: expected {ref}, got {got}"))
                    elif ref is not None:
                        keys = ("rms", "max", "min") if (c == "yaw" and any(abs(abs(x) - PI) < 1e-9 for x in errs)) else ("average", "rms", "max", "min")
                        for key in keys:
                            if not core.close(got[key], ref[key]):
                                fails.append(("error", None, f"{tag}: error {lab}/{c}/{key} = {got[key]}, GT - estimate gives {ref[key]}"))
    # --- per-object tallies: every ground truth once per frame in which it is critical
    st = out["status"]
    if "err" in st:
        fails.append(("exception", None, f"get_object_status raised {st['err']}"))
    else:
        groups = [(f"scene {si}", [(fr, l) for s2, fr, l in frames if s2 == si], st["scenes"][si]) for si in range(len(case["scenes"]))]
        groups.append(("all scenes", [(fr, l) for _, fr, l in frames], st["all"]))
        for name, fl, got in groups:
            exp = {}
            for fr, l in fl:
                for key, us in (("tp", [g for _, g in l["tp"]]), ("fp", [g for _, g in l["fp"] if g is not None and _objs_of(fr)[g]["l"] == FPL]), ("tn", l["tn"]), ("fn", l["fn"])):
                    for u in us:
                        exp.setdefault(u, {"total": [], "tp": [], "fp": [], "tn": [], "fn": []})
                        exp[u][key].append(l["n"])
                for u in l["critical"]:
                    exp.setdefault(u, {"total": [], "tp": [], "fp": [], "tn": [], "fn": []})
                    exp[u]["total"].append(l["n"])
            extra = {}
            for fr, l in fl:
                for e, g in l["fp"]:
                    if g is not None and _objs_of(fr)[g]["l"] != FPL:
                        extra.setdefault(g, []).append(l["n"])
            gotd = {s["uuid"]: s for s in got}
            if len(gotd) != len(got):
                fails.append(("status_once", False, f"{name}: a uuid has two status records"))
            if set(gotd) != set(exp):
                fails.append(("status_once", False, f"{name}: status records for {sorted(gotd)} but ground truths {sorted(exp)}"))
                continue
            for u, e in exp.items():
                s = gotd[u]
                if sorted(s["total"]) != sorted(e["total"]) or any(sorted(s[k]) != sorted(e[k]) for k in ("tp", "fp", "tn", "fn")):
                    # exactly F11: one extra FP entry (and total entry) per frame in which an FP result carries this ordinary GT
                    x = extra.get(u, [])
                    exact = bool(x) and sorted(s["total"]) == sorted(e["total"] + x) and sorted(s["fp"]) == sorted(e["fp"] + x) and all(sorted(s[k]) == sorted(e[k]) for k in ("tp", "tn", "fn"))
                    fails.append(("status_once", exact, f"{name}: ground truth {u} tallied total={s['total']} tp={s['tp']} fp={s['fp']} tn={s['tn']} fn={s['fn']}, critical in frames {e['total']}"))
    # --- status rates: rate = #frames tallied with that status / #frames tallied (the tallies themselves are judged above);
    #     every defined rate lies in [0,1]; float('inf') for a status that never occurred is not judged (observed:status-rate-inf)
    sr = out.get("status_rates")
    if sr is not None and "err" in sr:
        fails.append(("exception", None, f"get_status_rates / get_scene_rates raised {sr['err']}"))
    elif sr is not None and "err" not in st:
        for name, g, tallies in [(f"scene {i}", x, st["scenes"][i]) for i, x in enumerate(sr["scenes"])] + [("all scenes", sr["all"], st["all"])]:
            if [x["uuid"] for x in g["records"]] != [t["uuid"] for t in tallies]:
                fails.append(("status_rate", None, f"{name}: rate records {[x['uuid'] for x in g['records']]} for tallies {[t['uuid'] for t in tallies]}"))
                continue
            sums = {"total": 0, "TP": 0, "FP": 0, "TN": 0, "FN": 0}
            for x, t in zip(g["records"], tallies):
                tot = len(t["total"])
                sums["total"] += tot
                if x["order"] != ["TP", "FP", "TN", "FN"]:
                    fails.append(("status_rate", None, f"{name}: get_status_rates of {x['uuid']} in order {x['order']}"))
                    continue
                for stn, v in zip(x["order"], x["rates"]):
                    c = len(t[stn.lower()])
                    sums[stn] += c
                    if c == 0 or tot == 0:
                        if v != "inf" and v != 0.0:
                            fails.append(("status_rate", None, f"{name}: rate {x['uuid']}/{stn} = {v} for a status that never occurred"))
                        continue
                    if v in ("inf", "nan") or not (0.0 <= v <= 1.0) or abs(v - c / tot) > 1e-12:
                        fails.append(("status_rate", None, f"{name}: rate {x['uuid']}/{stn} = {v}, tallied in {c} of {tot} frames"))
            if sums["total"] == 0:
                if g["scene"] != ["inf"] * 4:  # documented: "If status_list is empty, returns sequence of float('inf')"
                    fails.append(("status_rate", None, f"{name}: scene rates {g['scene']} with nothing tallied"))
            else:
                vals = g["scene"]
                if any(v in ("inf", "nan") for v in vals):
                    fails.append(("status_rate", None, f"{name}: scene rates {vals} although {sums['total']} frames are tallied"))
                else:
                    for stn, v in zip(("TP", "FP", "TN", "FN"), vals):
                        if not (0.0 <= v <= 1.0) or abs(v - sums[stn] / sums["total"]) > 1e-12:
                            fails.append(("status_rate", None, f"{name}: scene rate {stn} = {v}, tallied {sums[stn]} of {sums['total']}"))
                    if abs(sum(vals) - 1.0) > 1e-9:
                        fails.append(("status_rate", None, f"{name}: scene rates {vals} do not sum to 1"))
    return fails


def _oracle_area(case, out):
    """the analyzer must be able to tabulate an item at ANY ego-frame position: get_area_idx answers None or the index of a
    rectangle of the grid that strictly contains the position, and never raises"""
    x, y = Fraction(case["x"]), Fraction(case["y"])
    where = f"division {case['division']}, max ({case['max_x']}, {case['max_y']}), ego-frame position ({case['x']}, {case['y']})"
    if "err" in out:
        return f"{out.get('stage')} raised {out['err']} ({where}): the analyzer cannot tabulate an item there"
    ur, bl = out["areas"]["ur"], out["areas"]["bl"]
    inside = [i for i, (u, b) in enumerate(zip(ur, bl)) if Fraction(b[0]) < x < Fraction(u[0]) and Fraction(u[1]) < y < Fraction(b[1])]
    # independent reference: the thirds of [-max, max] (exact), only when the bounds are thirds-exact in floats
    mx, my = Fraction(case["max_x"]), Fraction(case["max_y"])
    nx = 1 if case["division"] == 1 else 3
    ny = 3 if case["division"] == 9 else 1
    in_x = any(-mx + 2 * mx * k / nx < x < -mx + 2 * mx * (k + 1) / nx for k in range(nx))
    in_y = any(-my + 2 * my * k / ny < y < -my + 2 * my * (k + 1) / ny for k in range(ny))
    a = out["area"]
    if a is None:
        if in_x and in_y:
            return f"get_area_idx = None although the position lies strictly inside a cell ({where})"
        return None
    if not (in_x and in_y):
        return f"get_area_idx = {a} although the position lies on a grid line or outside the field ({where})"
    if inside != [a]:
        return f"get_area_idx = {a}, but the rectangles of the grid strictly containing the position are {inside} ({where})"
    return None


def _oracle_rows(case, out):
    """one row pair per TP, FP, TN, FN item, in this order, numbered 0, 1, ...; TP / FP: (ground-truth row or the all-None row,
    estimation row) with the list's status; TN / FN: (ground-truth row, all-None row)"""
    if "err" in out:
        return f"{out.get('stage')} raised {out['err']} for a frame with counts {case['counts']}"
    rows = out["rows"]
    a, b, c, d = case["counts"]
    exp = []
    j = 0
    for kind, cnt in enumerate((a, b, c, d)):
        for i in range(cnt):
            st = ("TP", "FP", "TN", "FN")[kind]
            if kind < 2:
                none = (case["tp_none"] if kind == 0 else case["fp_none"])[i]
                exp.append((None if none else (st, f"g{j}"), (st, f"e{j}")))
            else:
                exp.append(((st, f"g{j}"), None))
            j += 1
    if isinstance(rows, dict) or len(rows) != len(exp):
        return f"table has {rows if isinstance(rows, dict) else len(rows)} row pairs for {len(exp)} items (counts {case['counts']})"
    for k, (row, (eg, ee)) in enumerate(zip(rows, exp)):
        if row[0] != k or row[3] != k or row[1] != "ground_truth" or row[4] != "estimation":
            return f"row pair {k}: index/side {row[:2]} {row[3:5]}"
        for side, want, cell in (("ground_truth", eg, row[2]), ("estimation", ee, row[5])):
            got = None if cell is None else (cell["st"], cell["u"])
            if got != want:
                return f"row {k} {side}: expected {want or 'the all-None row'}, got {got or 'the all-None row'} (counts {case['counts']}, tp_none {case['tp_none']}, fp_none {case['fp_none']})"
            if cell is not None and (cell["frame"] != 7 or cell["scene"] != 0):
                return f"row {k} {side}: frame/scene {cell['frame']}/{cell['scene']}, expected 7/0"
    return None


def oracle(case, out):
    if case.get("kind") == "area":
        return _oracle_area(case, out)
    if case.get("kind") == "rows":
        return _oracle_rows(case, out)
    fails = _check(case, out)
    if not fails:
        return None
    # clauses that a listed finding explains go last, so that a new violation is named first
    explained = lambda f: (f[0] in ("gt_count", "status_once") and f[1] is True) or f[0] == "empty_counts" or (f[0] == "rates" and _n1_explains(case, out, f[1]))  # noqa: E731
    fails = [f for f in fails if not explained(f)] + [f for f in fails if explained(f)]
    return "; ".join(m for _, _, m in fails[:6]) + (f" (+{len(fails) - 6} more)" if len(fails) > 6 else "")


def _n1_explains(case, out, info):
    """a rate failure that is exactly N1: a per-label TP rate above one on a label carried by a TP estimate whose GT has another label"""
    i, lab, name, v = info
    if lab == "ALL" or name != "TP" or not v > 1.0:
        return False
    for sc_case, sc_out in zip(case["scenes"], out["frames"]):
        for fr, l in zip(sc_case, sc_out):
            objs = _objs_of(fr)
            for e, g in l["tp"]:
                if objs[e]["l"] == lab and objs[g]["l"] != lab:
                    return True
    return False


def known_finding(case, out, failure):
    if case.get("kind") in ("area", "rows"):
        return None
    fails = _check(case, out)
    if not fails:
        return None
    ids = []
    for tag, info, _ in fails:
        if tag in ("gt_count", "status_once") and info is True:
            ids.append(F11)
        elif tag == "rates" and _n1_explains(case, out, info):
            a = out["analyses"][info[0]]
            if all(0.0 <= x <= 1.0 for x in a["ratio"]["ALL"]):
                ids.append(N1)
            else:
                return None
        elif tag == "empty_counts" and info == "TypeError":
            ids.append(N2)
        else:
            return None  # some clause fails in a way no listed finding explains
    for k in (F11, N1, N2):
        if k in ids:
            return k
    return None


# ----------------------------------------------------------------------------- generation

GRID = [(-72, -36), (-72, 0), (-72, 36), (-48, -24), (-48, 12), (-24, -36), (-24, 0), (-24, 36), (0, -24), (0, 24),
        (12, -42), (12, 6), (24, -36), (24, 36), (36, 0), (48, -24), (48, 12), (60, 36), (72, -36), (72, 0), (72, 36),
        (32, 16), (-32, -16), (32, -16), (64, 16), (-64, 16), (16, 32), (40, -40)]
LABELS = ["car", "bicycle", "pedestrian", "motorbike"]


def _gen_obj(rng, u, label, x, y, yaw=None, vel="rand"):
    if vel == "rand":
        vel = None if rng.random() < 0.2 else [core.dyadic(rng, -8, 8, 4), core.dyadic(rng, -8, 8, 4)]
    return {"u": u, "l": label, "x": float(x), "y": float(y), "yaw": rng.randint(-15, 16) if yaw is None else yaw,
            "v": vel, "w": core.dyadic(rng, 1, 3, 4), "len": core.dyadic(rng, 2, 6, 4)}


def _gen_frame(rng, case, n, k_gt, opts):
    labels = case["labels"]
    ordinary = [l for l in labels if l not in (FPL,)]
    pos = rng.sample(GRID, k_gt)
    gts, ests = [], []
    off = lambda lo, hi: rng.choice([-1, 1]) * core.dyadic(rng, lo, hi, 8)  # noqa: E731
    for i, (x, y) in enumerate(pos):
        if case["frame_id"] == "map":
            x, y = x + 0.125, y + 0.375  # keep away from area boundaries (float round trip)
        fpl = rng.random() < opts["p_fpl"]
        lab = FPL if fpl else rng.choice([l for l in ordinary if l != "unknown"] or ordinary)
        if opts.get("gt_unknown") and not fpl and rng.random() < 0.3 and "unknown" in labels:
            lab = "unknown"
        g = _gen_obj(rng, f"g{opts['gt_ids'][i]}", lab, x, y)
        gts.append(g)
        u = f"e{n}_{i}"
        r = rng.random()
        if fpl:
            if opts.get("fpl_close"):
                # flavour 'n3': an estimate that MATCHES the FP-labelled ground truth (same yaw and size, within the threshold)
                if r < 0.8:
                    e = _gen_obj(rng, u, rng.choice(ordinary), x + off(0, 0.5), y + off(0, 0.5), yaw=g["yaw"])
                    e["w"], e["len"] = g["w"], g["len"]
                    ests.append(e)
            elif r < 0.5:
                ests.append(_gen_obj(rng, u, rng.choice(ordinary), x + off(0, 0.5), y + off(0, 0.5)))
            continue
        kinds = opts["kinds"]
        kind = rng.choices(list(kinds), weights=list(kinds.values()))[0]
        if kind == "tp":
            yaw = g["yaw"] + rng.choice([0, 0, 1, -1, 15, 16, 17, -16, 31, 32] if opts["flip"] else [0, 0, 1, -1, 31, 32, -32])
            e = _gen_obj(rng, u, lab, x + off(0, 0.5), y + off(0, 0.5), yaw=yaw, vel="rand" if g["v"] is None or rng.random() < 0.3 else [g["v"][0] + core.dyadic(rng, -1, 1, 4), g["v"][1]])
            e["w"], e["len"] = g["w"] + rng.choice([0.0, 0.25, -0.25]), g["len"] + rng.choice([0.0, 0.25, -0.25])
            if opts.get("est_unknown") and rng.random() < opts["est_unknown"]:
                e["l"] = "unknown"
            if opts.get("est_any") and rng.random() < opts["est_any"]:
                e["l"] = rng.choice(ordinary)
            ests.append(e)
        elif kind == "far":
            ests.append(_gen_obj(rng, u, lab, x + off(3, 4.5), y + off(3, 4.5)))
        elif kind == "wrong":
            others = [l for l in ordinary if l != lab and l != "unknown"]
            ests.append(_gen_obj(rng, u, rng.choice(others) if others else lab, x + off(0, 0.5), y + off(0, 0.5)))
        # "miss": no estimate
    for j in range(opts["n_free"]):
        x, y = rng.choice(GRID)
        ests.append(_gen_obj(rng, f"e{n}_x{j}", rng.choice(ordinary), x + 6.25 + j, y - 5.75))
    rng.shuffle(ests)
    fr = {"n": n, "t": 1000 * (n + 1), "gts": gts, "ests": ests}
    if case["frame_id"] == "map":
        fr["ego"] = [core.dyadic(rng, -2000, 2000, 4), core.dyadic(rng, -2000, 2000, 4), rng.randint(-15, 16)]
    return fr


def _gen_sels(rng, case, n_sel):
    labels = case["labels"]
    nsc = len(case["scenes"])
    fnums = sorted({fr["n"] for sc in case["scenes"] for fr in sc})
    uuids = sorted({o["u"] for sc in case["scenes"] for fr in sc for o in fr["gts"] + fr["ests"]})
    sels = [{"mode": "analyze"}]
    pool = [
        lambda: {"scene": rng.randrange(nsc + 1)},
        lambda: {"scene": rng.sample(range(nsc + 1), rng.randint(1, min(2, nsc + 1)))},
        lambda: {"area": rng.randrange(case["division"] + (1 if rng.random() < 0.1 else 0))},
        lambda: {"area": rng.sample(range(case["division"]), min(case["division"], 2))},
        lambda: {"label": rng.choice(labels + ["unknown"])},
        lambda: {"label": rng.sample(labels, min(2, len(labels)))},
        lambda: {"frame": rng.choice(fnums) if fnums else 0},
        lambda: {"status": rng.choice(["TP", "FP", "TN", "FN"])},
        lambda: {"status": rng.sample(["TP", "FP", "TN", "FN"], 2)},
        lambda: {"uuid": rng.choice(uuids) if uuids else "g0"},
        lambda: {"distance": sorted([float(rng.choice([0, 10, 25, 30, 40, 50, 65, 90])), float(rng.choice([5, 20, 37.5, 45, 60, 80, 120]))])},
        lambda: {"distance": [50.0, 10.0]},
        lambda: {"label": rng.choice(labels), "area": rng.randrange(case["division"])},
        lambda: {"scene": rng.randrange(nsc), "distance": [0.0, float(rng.choice([30, 50, 75]))]},
        lambda: {"label": rng.choice(labels), "status": ["TP", "FP"]},
    ]
    for k in range(n_sel):
        s = rng.choice(pool)()
        if s.get("distance") is not None and s["distance"][0] == s["distance"][1]:
            s["distance"][1] += 5.0
        s["mode"] = "analyze" if k == 0 else "parts"
        sels.append(s)
    return sels + _selection_class_sels(rng, case, 2)


# ----- the class "selections": ranges narrower than a pair's separation, bounds on a row's distance, empty selections,
#       selections that split pairs (a keyword carried by one row only), combinations, every entry point / argument form

def _is_square(fr):
    """is the non-negative Fraction the square of a rational?"""
    n, d = fr.numerator, fr.denominator
    return math.isqrt(n) ** 2 == n and math.isqrt(d) ** 2 == d


def _root(fr):
    return Fraction(math.isqrt(fr.numerator), math.isqrt(fr.denominator))


def _case_pairs(case):
    """(frame, ground truth, estimate) for every estimate within 7 m of a ground truth of its frame (the likely row pairs)"""
    ps = []
    for si, sc in enumerate(case["scenes"]):
        for fr in sc:
            for e in fr["ests"]:
                near = [g for g in fr["gts"] if (g["x"] - e["x"]) ** 2 + (g["y"] - e["y"]) ** 2 <= 49.0]
                if near:
                    g = min(near, key=lambda g: (g["x"] - e["x"]) ** 2 + (g["y"] - e["y"]) ** 2)
                    ps.append((si, fr, g, e))
    return ps


def _all_dist2(case):
    return sorted({_dist2(o) for sc in case["scenes"] for fr in sc for o in fr["gts"] + fr["ests"]})


def _safe_bound(b, d2s, exact_ok):
    """a bound on the 1/64 grid that is either exactly a row's distance (exact_ok) or at least 1/512 away from every row's"""
    b = Fraction(round(b * 64), 64)
    if b < 0:
        b = Fraction(0)
    for _ in range(40):
        clash = False
        for d2 in d2s:
            if d2 == b * b:
                if exact_ok:
                    return b
                clash = True
                break
            if abs(math.sqrt(d2) - float(b)) < 1.0 / 512:
                clash = True
                break
        if not clash:
            return b
        b += Fraction(1, 256)
    return b


def _narrow_distance(rng, case, pair=None):
    """a distance range placed relative to ONE likely row pair: strictly between its two rows (straddled on both sides), on a
    row's distance (inclusive lower / exclusive upper bound), holding only one of the rows, holding both, just beside"""
    ps = _case_pairs(case)
    d2s = _all_dist2(case)
    if not ps:
        return {"distance": [float(rng.choice([0, 3, 17])), float(rng.choice([18.5, 19, 33]))]}
    _si, fr, g, e = pair or rng.choice(ps)
    a2, b2 = sorted([_dist2(g), _dist2(e)])
    lo, hi = Fraction(math.sqrt(a2)), Fraction(math.sqrt(b2))
    if _is_square(a2):
        lo = _root(a2)
    if _is_square(b2):
        hi = _root(b2)
    w = Fraction(rng.choice([1, 2, 4, 8, 24]), 8)
    gap = hi - lo
    shape = rng.choice(["between", "between", "lo..hi", "..lo", "hi..", "lo..", "..hi", "both", "beside", "only-lo", "only-hi"])
    exact = True
    if shape == "between":
        d0, d1, exact = lo + gap / 4, hi - gap / 4, False
    elif shape == "lo..hi":
        d0, d1 = lo, hi
    elif shape == "..lo":
        d0, d1 = lo - w, lo
    elif shape == "hi..":
        d0, d1 = hi, hi + w
    elif shape == "lo..":
        d0, d1 = lo, lo + min(w, gap / 2 if gap > 0 else w)
    elif shape == "..hi":
        d0, d1 = hi - min(w, gap / 2 if gap > 0 else w), hi
    elif shape == "both":
        d0, d1, exact = lo - w, hi + w, False
    elif shape == "beside":
        d0, d1, exact = hi + Fraction(1, 16), hi + Fraction(1, 16) + w, False
    elif shape == "only-lo":
        d0, d1, exact = lo - w, lo + gap / 2, False
    else:
        d0, d1, exact = lo + gap / 2, hi + w, False
    d0, d1 = _safe_bound(d0, d2s, exact), _safe_bound(d1, d2s, exact)
    if d1 <= d0:
        d1 = _safe_bound(d0 + Fraction(1, 32), d2s, False)
    if d1 <= d0:
        d1 = d0 + 1
    return {"distance": [float(d0), float(d1)], "shape": shape}


def _selection_class_sels(rng, case, k):
    labels = case["labels"]
    nsc = len(case["scenes"])
    fnums = sorted({fr["n"] for sc in case["scenes"] for fr in sc}) or [0]
    ps = _case_pairs(case)
    objs = [o for sc in case["scenes"] for fr in sc for o in fr["gts"] + fr["ests"]]

    def one_row_label():
        """a label carried by ONE row of some pair only (wrong-label FP, unknown / any-label TP): the pair must be kept whole"""
        mixed = [(g, e) for _, _, g, e in ps if g["l"] != e["l"]]
        if mixed:
            g, e = rng.choice(mixed)
            return {"label": rng.choice([g["l"], e["l"], [e["l"]]])}
        return {"label": rng.choice(labels + ["unknown"])}

    def one_row_uuid():
        if ps:
            _, _, g, e = rng.choice(ps)
            return {"uuid": rng.choice([g["u"], e["u"], [g["u"], "nobody"], [e["u"]]])}
        return {"uuid": rng.choice(objs)["u"] if objs else "nobody"}

    def empty():
        return rng.choice([
            {"label": "animal"}, {"uuid": "nobody"}, {"distance": [500.0, 600.0]}, {"frame": max(fnums) + 7}, {"scene": nsc + 3},
            {"status": "TP", "label": "animal"}, {"area": case["division"] + 2}, {"label": [], }, {"distance": [0.0, 0.0078125]},
        ])

    def combo():
        s = {}
        pair = rng.choice(ps) if ps and rng.random() < 0.6 else None  # keywords read off ONE likely row pair: a non-empty combination
        for key in rng.sample(["label", "scene", "frame", "area", "status", "uuid", "distance"], rng.randint(2, 4)):
            if pair is not None:
                si, fr, g, e = pair
                if key == "label":
                    s["label"] = rng.choice([g["l"], e["l"], [g["l"], e["l"]]])
                elif key == "scene":
                    s["scene"] = rng.choice([si, [si], list(range(nsc))])
                elif key == "frame":
                    s["frame"] = rng.choice([fr["n"], [fr["n"]], fnums])
                elif key == "area":
                    s["area"] = list(range(case["division"]))
                elif key == "status":
                    s["status"] = rng.choice([["TP", "FP"], ["TP", "FP", "FN"]])
                elif key == "uuid":
                    s["uuid"] = rng.choice([g["u"], e["u"], [g["u"], e["u"]]])
                else:
                    s.update(_narrow_distance(rng, case, pair))
                continue
            if key == "label":
                s.update(one_row_label() if rng.random() < 0.5 else {"label": rng.sample(labels, min(len(labels), rng.randint(1, 2)))})
            elif key == "scene":
                s["scene"] = rng.choice([rng.randrange(nsc), list(range(nsc))])
            elif key == "frame":
                s["frame"] = rng.choice([rng.choice(fnums), fnums[: max(1, len(fnums) // 2)], fnums])
            elif key == "area":
                s["area"] = rng.choice([rng.randrange(case["division"]), list(range(case["division"]))])
            elif key == "status":
                s["status"] = rng.choice(["TP", "FP", "FN", ["TP", "FP"], ["TP", "FN"], ["FP", "FN", "TN"]])
            elif key == "uuid":
                s.update(one_row_uuid())
            else:
                s.update(_narrow_distance(rng, case) if rng.random() < 0.6 else {"distance": [0.0, float(rng.choice([20, 35, 50, 80]))]})
        return s

    pool = [lambda: _narrow_distance(rng, case)] * 4 + [combo] * 3 + [one_row_label, one_row_uuid, empty]
    out = []
    for _ in range(k):
        s = rng.choice(pool)()
        s["mode"] = rng.choice(["analyze", "parts", "parts", "filter"])
        if "distance" in s:
            s["dform"] = rng.choice(["tuple", "tuple", "list", "array", "int"])
        out.append(s)
    return out


def _gen_case(rng, flavour="plain"):
    case = {"kind": "scenes", "flavour": flavour}
    case["task"] = rng.choices(["detection", "tracking"], weights=[3, 1])[0]
    case["frame_id"] = rng.choice(["base_link", "map"])
    k = rng.randint(2, 4)
    case["labels"] = rng.sample(LABELS, k)
    case["policy"] = rng.choices(["default", "allow_unknown_flag", "allow_unknown"], weights=[5, 2, 1])[0]
    opts = {"p_fpl": rng.choice([0.0, 0.15, 0.3]), "kinds": {"tp": 5, "far": 1.5, "wrong": 1, "miss": 2}, "n_free": 0}
    if flavour == "no_f11":
        opts["kinds"] = {"tp": 6, "miss": 2}
    if flavour == "n1":
        case["policy"] = rng.choice(["allow_unknown_flag", "allow_any"])
        if case["policy"] == "allow_any":
            opts["est_any"] = 0.6
        else:
            case["labels"] = case["labels"][: k - 1] + ["unknown"]
            opts["est_unknown"] = 0.6
            opts["gt_unknown"] = True
        opts["kinds"] = {"tp": 6, "miss": 1}
        case["task"] = "detection"
    elif case["policy"] != "default":
        opts["est_unknown"] = 0.25  # unknown estimates, "unknown" not a target label: rates stay within [0,1]
    if flavour == "n3":
        # pass/fail target labels hold "false_positive" (with a threshold), the evaluation config's do not: a matching estimate inside
        # the threshold is an FP result that keeps its FP-labelled ground truth, a paired row with a label outside target_labels + unknown
        case["pf_labels"] = case["labels"] + [FPL]
        opts["p_fpl"] = 0.5
        opts["fpl_close"] = True
    if flavour not in ("n1", "n3") and rng.random() < 0.2:
        # "false_positive" a target label: FP-labelled ground truths get a threshold, a matching estimate
        # inside it is an FP result that keeps its FP-labelled ground truth (status (FP, FP))
        case["labels"] = case["labels"] + [FPL]
        opts["p_fpl"] = 0.4
    if rng.random() < 0.8:
        mx, my = rng.choice([(96.0, 96.0), (96.0, 48.0), (120.0, 60.0), (75.0, 75.0)])
        case["range"] = {"kind": "xy", "max_x": mx, "max_y": my}
        cf = rng.choice([1.0, 1.0, 0.75, 0.5])
        case["crit"] = {"kind": "xy", "x": mx * cf, "y": my * cf}
    else:
        case["range"] = {"kind": "dist", "max": rng.choice([90.0, 110.0]), "min": rng.choice([0.0, 5.0])}
        case["crit"] = {"kind": "dist", "max": rng.choice([60.0, 90.0, 110.0]), "min": 0.0}
    case["radii"] = rng.choice([None, 5.0, 5.0]) if flavour != "no_f11" else 5.0
    case["thr"] = rng.choice([2.0, 3.0, 8.0])
    opts["flip"] = flavour == "plain" or case["thr"] == 8.0  # a yaw flip swaps the nearest-plane corners: plane distance ~ box size
    case["division"] = rng.choice([1, 3, 9])
    nsc = rng.randint(1, 3)
    scenes = []
    for _ in range(nsc):
        nfr = rng.randint(1, 5)
        n_ids = rng.randint(0, 6)
        start = rng.choice([0, 0, 3, 10])
        sc = []
        for j in range(nfr):
            k_gt = rng.randint(0, n_ids)
            opts["gt_ids"] = sorted(rng.sample(range(n_ids), k_gt))
            opts["n_free"] = rng.choice([0, 0, 1, 2]) if flavour != "no_f11" or case["radii"] else 0
            sc.append(_gen_frame(rng, case, start + j, k_gt, opts))
        scenes.append(sc)
    if flavour == "n3":
        # heights: every ground truth and the estimates derived from it stand at their own height, the ego (map frame) at another one
        for sc in scenes:
            for fr in sc:
                for g in fr["gts"]:
                    g["z"] = core.dyadic(rng, -3, 6, 4)
                for e in fr["ests"]:
                    tail = e["u"].split("_")[-1]
                    e["z"] = fr["gts"][int(tail)]["z"] if tail.isdigit() and int(tail) < len(fr["gts"]) else core.dyadic(rng, -3, 6, 4)
                if "ego" in fr:
                    fr["ego"] = fr["ego"][:3] + [core.dyadic(rng, -20, 40, 4)]
    case["scenes"] = scenes
    case["sels"] = _gen_sels(rng, case, rng.randint(3, 6))
    if flavour == "n3":
        case["sels"] += [{"status": "TP", "mode": "analyze"}, {"status": ["FP", "FN"], "mode": "parts"}]
    return case


def _boundary_case(rng):
    """BASE_LINK objects exactly on area boundaries / on a distance bound (exact in floats)"""
    case = _gen_case(rng, "plain")
    case["frame_id"] = "base_link"
    case["range"] = {"kind": "xy", "max_x": 96.0, "max_y": 48.0}
    case["crit"] = {"kind": "xy", "x": 96.0, "y": 48.0}
    case["division"] = rng.choice([3, 9])
    for sc in case["scenes"]:
        for fr in sc:
            fr.pop("ego", None)
            for o in fr["gts"] + fr["ests"]:
                if rng.random() < 0.4:
                    o["x"] = rng.choice([32.0, -32.0, 30.0, 40.0, 0.0])
                if rng.random() < 0.3:
                    o["y"] = rng.choice([16.0, -16.0, 0.0, 30.0])
    case["sels"] = _gen_sels(rng, case, 3) + [{"distance": [30.0, 50.0], "mode": "parts"}, {"area": 1, "mode": "parts"}]
    return case


RAYS = [(3, 4, 5), (4, 3, 5), (5, 12, 13), (12, 5, 13), (8, 15, 17), (15, 8, 17), (7, 24, 25), (24, 7, 25), (20, 21, 29), (21, 20, 29),
        (1, 0, 1), (0, 1, 1)]


def _distance_case(rng):
    """row pairs whose two rows have EXACT ego-frame distances (positions on rays of Pythagorean directions, c*m/8 metres from
    the ego), separated by 1/8 .. 4.5 m, with distance ranges placed on / between those distances"""
    for _ in range(12):
        case = _gen_case(rng, rng.choice(["plain", "plain", "no_f11"]))
        if len(_case_pairs(case)) >= 4:
            break
    case["flavour"] = "distance"
    if rng.random() < 0.75:
        case["frame_id"] = "base_link"
    case["range"] = {"kind": "xy", "max_x": 96.0, "max_y": 96.0}
    case["crit"] = {"kind": "xy", "x": 96.0, "y": 96.0}
    for sc in case["scenes"]:
        for fr in sc:
            if case["frame_id"] == "base_link":
                fr.pop("ego", None)
            elif "ego" not in fr:
                fr["ego"] = [core.dyadic(rng, -2000, 2000, 4), core.dyadic(rng, -2000, 2000, 4), rng.randint(-15, 16)]
            placed = []
            byid = {}
            for i, g in enumerate(fr["gts"]):
                for _ in range(60):
                    a, b, c = rng.choice(RAYS)
                    sa, sb = rng.choice([-1, 1]), rng.choice([-1, 1])
                    m = rng.randint(max(8, (8 * 8) // c), (8 * 88) // c)
                    x, y = sa * a * m / 8.0, sb * b * m / 8.0
                    if abs(x) < 94 and abs(y) < 94 and all((x - px) ** 2 + (y - py) ** 2 >= 144.0 for px, py in placed):
                        break
                placed.append((x, y))
                dx, dy = x - g["x"], y - g["y"]
                g["x"], g["y"] = x, y
                byid[i] = (g, a, b, c, sa, sb, m, dx, dy)
            for e in fr["ests"]:
                tail = e["u"].split("_")[-1]
                if tail.startswith("x") or not tail.isdigit() or int(tail) not in byid:
                    continue
                g, a, b, c, sa, sb, m, dx, dy = byid[int(tail)]
                if rng.random() < 0.65:
                    dm = rng.choice([-1, 1]) * rng.randint(1, max(1, min(m - 1, (36 // c))))
                    e["x"], e["y"] = sa * a * (m + dm) / 8.0, sb * b * (m + dm) / 8.0
                else:
                    e["x"], e["y"] = e["x"] + dx, e["y"] + dy
    sels = [{"mode": "analyze"}]
    for k in range(rng.randint(5, 7)):
        sl = _narrow_distance(rng, case)
        if rng.random() < 0.3:
            sl.update(rng.choice([{"status": ["TP", "FP"]}, {"label": rng.choice(case["labels"])}, {"scene": 0}, {"area": list(range(case["division"]))}]))
        sl["mode"] = rng.choice(["analyze", "parts", "filter"])
        sl["dform"] = rng.choice(["tuple", "tuple", "list", "array", "int"])
        sels.append(sl)
    case["sels"] = sels + _selection_class_sels(rng, case, 1)
    return case


def _empty_case(rng, with_frames):
    case = _gen_case(rng, "no_f11")
    case["flavour"] = "empty"
    case["scenes"] = [[{"n": 0, "t": 1000, "gts": [], "ests": []}]] if with_frames else [[]]
    if case["frame_id"] == "map":
        for sc in case["scenes"]:
            for fr in sc:
                fr["ego"] = [10.0, 20.0, 3]
    case["sels"] = [{"mode": "analyze"}]
    return case


def table_witness_cases():
    """concrete inputs realising the valuations on which the code's decision tables (harness/dt_c19.py) and the model's skeletons
    differ; empty on an unchanged source. Never raises."""
    try:
        from .. import dt_c19

        return dt_c19.witness_cases()
    except Exception:  # noqa: BLE001 - the witness step must never break the check
        return []


def extra_evidence():
    from .. import dt_c19

    return {"tables": dt_c19.evidence()}


_STATE = {}


def _table_branches():
    """once per run: how the tables of the real code came out (`table:untranslatable` = the translator fell back)"""
    if _STATE.get("table_branches_done"):
        return []
    _STATE["table_branches_done"] = True
    try:
        from .. import dt_c19

        ev = dt_c19.evidence()
        b = [f"table:untranslatable:{k}" for k in ev["decision_tables_untranslatable"]]
        if b:
            b.append("table:untranslatable")
        return b + [f"table:{k}:paths={v['paths']}" for k, v in ev["decision_tables"].items()]
    except Exception:  # noqa: BLE001
        return ["table:untranslatable"]


def generate(rng, tier):
    n = 69 if tier == "quick" else 460
    cases = table_witness_cases()
    for i in range(n):
        r = i % 23
        if r % 2 == 1 and r not in (3, 7, 13, 17, 19):
            cases.append(_gen_case(rng, "no_f11"))
        elif r == 7:
            cases.append(_boundary_case(rng))
        elif r in (3, 10, 19):
            cases.append(_distance_case(rng))
        elif r == 13:
            cases.append(_gen_case(rng, "n1"))
        elif r == 17 and (i // 23) % 3 == 0:
            cases.append(_empty_case(rng, rng.random() < 0.5))
        else:
            cases.append(_gen_case(rng, "plain"))
    # flavour 'n3' (pass/fail target labels != config's, object / ego heights) from a generator of its own, appended last,
    # so that the cases above are the same as before
    import random as _random

    rng3 = _random.Random(sum(rng.getstate()[1][:8]) + (0 if tier == "quick" else 1))
    for _ in range(6 if tier == "quick" else 36):
        cases.append(_gen_case(rng3, "n3"))
    return cases


def corpus():
    cs = []
    if CORPUS_DIR.exists():
        for p in sorted(CORPUS_DIR.glob("*.json")):
            cs.append(json.loads(p.read_text())["case"])
    return cs


def branches(case, out):
    if case.get("kind") in ("area", "rows"):
        return [f"kind:{case['kind']}", "table:witness"] + _table_branches() + (["impl-error:" + str(out.get("err"))] if "err" in out else [])
    b = _table_branches() + [f"frame:{case['frame_id']}", f"task:{case['task']}", f"division:{case['division']}", f"policy:{case['policy']}",
         f"range:{case['range']['kind']}", f"radii:{case.get('radii')}", f"scenes:{len(case['scenes'])}",
         f"frames:{sum(len(s) for s in case['scenes'])}", f"flavour:{case.get('flavour')}"]
    if "frames" not in out or "err" in out or isinstance(out.get("rows"), dict):
        return b + ["impl-error:" + str(out.get("err")), "trivial"]
    ls = [l for sc in out["frames"] for l in sc]
    nrows = len(out["rows"])
    if nrows == 0:
        b.append("trivial")
    b.append("rows:" + ("0" if nrows == 0 else "1-9" if nrows < 10 else "10-29" if nrows < 30 else "30+"))
    f11 = 0
    for sc_case, sc_out in zip(case["scenes"], out["frames"]):
        for fr, l in zip(sc_case, sc_out):
            objs = _objs_of(fr)
            if l["tp"]:
                b.append("has:TP")
            else:
                b.append("frame-without-TP")
            for e, g in l["fp"]:
                if g is None:
                    b.append("has:FP-without-GT")
                elif objs[g]["l"] == FPL:
                    b.append("has:FP-with-FP-labelled-GT")
                else:
                    b.append("has:FP-with-ordinary-GT(F11)")
                    f11 += 1
            if l["tn"]:
                b.append("has:TN")
            if l["fn"]:
                b.append("has:FN")
            if len(l["critical"]) < len(fr["gts"]):
                b.append("critical-filter-drops-GT")
            if any(objs[e]["l"] != objs[g]["l"] for e, g in l["tp"]):
                b.append("has:TP-with-different-labels")
            if any(o["v"] is None for o in fr["gts"] + fr["ests"]):
                b.append("has:velocity-None")
    b = sorted(set(b))
    b.append("f11-frames:" + ("0" if f11 == 0 else "1+"))
    if _yaw_pi_pairs(case, out):
        b.append("yaw-diff-exactly-pi")
    for row in out["rows"]:
        for c in (row[2], row[5]):
            if c is not None and c["area"] is None:
                b.append("area:None")
                break
    try:
        items_l = _items(case, out)
    except Exception:  # noqa: BLE001
        items_l = []
    for sel, a in zip(case["sels"], out["analyses"]):
        keys = "+".join(sorted(k for k in _sel_kwargs(sel))) or "all"
        res = "err:" + a["err"] if "err" in a else "none" if a.get("none") else "ok"
        b.append(f"sel:{keys}:{res}")
        b.append(f"sel-mode:{sel.get('mode', 'analyze')}")
        kw = _sel_kwargs(sel)
        if len(kw) >= 2:
            b.append(f"sel-class:combination-of-{min(len(kw), 4)}")
        if a.get("sel") is not None and not a["sel"]["index"] and kw:
            b.append("sel-class:empty-selection")
        if "distance" in kw:
            b.append(f"sel-dform:{sel.get('dform', 'tuple')}")
            d0, d1 = Fraction(kw["distance"][0]), Fraction(kw["distance"][1])
            if d0 < d1:
                for st, g, e, si, n in items_l:
                    ds = [_dist2(o) for o in (g, e) if o is not None]
                    if any(d == d0 * d0 for d in ds):
                        b.append("sel-class:row-on-lower-bound")
                    if any(d == d1 * d1 for d in ds):
                        b.append("sel-class:row-on-upper-bound")
                    if len(ds) == 2:
                        lo, hi = min(ds), max(ds)
                        if lo < d0 * d0 and hi >= d1 * d1:
                            b.append("sel-class:pair-straddles-range")
                        ins = [(d0 <= 0 or d0 * d0 <= d) and d < d1 * d1 for d in ds]
                        if ins[0] != ins[1]:
                            b.append("sel-class:one-row-in-range")
        for key in ("label", "uuid"):
            if key in kw:
                vals = _vals(kw[key])
                f = "l" if key == "label" else "u"
                if any(g is not None and e is not None and (g[f] in vals) != (e[f] in vals) for st, g, e, si, n in items_l):
                    b.append(f"sel-class:{key}-on-one-row-of-a-pair")
        if "ratio" in a:
            b.append("cm:" + ("none" if a["cm"] is None else "some"))
            if any(v is None for v in a["error"]["ALL"].values()):
                b.append("error-summary:NaN")
            for l, vals in a["ratio"].items():
                if any(v > 1.0 for v in vals):
                    b.append("rate>1(N1)")
    for k, v in out["num"].items():
        if isinstance(v, dict):
            b.append("num-raises:" + v["err"])
            break
    if case.get("pf_labels"):
        b.append("pf-labels:differ-from-config")
        tl = set(case["labels"]) | {"unknown"}
        if any(a.get("cm_labels") and not set(a["cm_labels"]) <= tl for a in out["analyses"]):
            b.append("n3:confusion-matrix-with-extra-label")
    if any(o.get("z") for sc in case["scenes"] for fr in sc for o in fr["gts"] + fr["ests"]):
        b.append("heights:objects")
    if any(len(fr.get("ego") or []) > 3 and fr["ego"][3] for sc in case["scenes"] for fr in sc):
        b.append("heights:ego")
    sr = out.get("status_rates")
    if isinstance(sr, dict) and "err" not in sr:
        for g in sr["scenes"] + [sr["all"]]:
            for x in g["records"]:
                if any(v == "inf" for v in x["rates"]) and x["total"] > 0:
                    b.append("observed:status-rate-inf")
                if any(v != "inf" for v in x["rates"]):
                    b.append("status-rate:defined")
                if sum(1 for v in x["rates"] if v != "inf") >= 2:
                    b.append("status-rate:two-statuses-for-one-gt")
            b.append("scene-rates:" + ("inf" if g["scene"] == ["inf"] * 4 else "defined"))
    elif isinstance(sr, dict):
        b.append("status-rates-raise:" + sr["err"])
    return sorted(set(b))


def shrink(case):
    """drop scenes, frames, objects, selections"""
    import copy

    if case.get("kind") in ("area", "rows"):
        return
    if len(case["scenes"]) > 1:
        for i in range(len(case["scenes"])):
            c = copy.deepcopy(case)
            del c["scenes"][i]
            c["sels"] = [s for s in c["sels"] if "scene" not in s]
            yield c
    for i, sc in enumerate(case["scenes"]):
        if len(sc) > 1:
            for j in range(len(sc)):
                c = copy.deepcopy(case)
                del c["scenes"][i][j]
                yield c
    if len(case["sels"]) > 1:
        for i in range(len(case["sels"])):
            c = copy.deepcopy(case)
            del c["sels"][i]
            yield c
    for i, sc in enumerate(case["scenes"]):
        for j, fr in enumerate(sc):
            for key in ("gts", "ests"):
                for k in range(len(fr[key])):
                    c = copy.deepcopy(case)
                    del c["scenes"][i][j][key][k]
                    yield c


def area_probe_cases():
    """the area kernel on a lattice of positions for 1 / 3 / 9 divisions (used by the failing-input search only)"""
    try:
        from .. import dt_c19

        return [c for _nm, _k1, k2 in dt_c19.AREA_SHAPES for c in dt_c19.probe_cases(k2)]
    except Exception:  # noqa: BLE001
        return []


def search(rng, st, disagreements):
    return table_witness_cases() + area_probe_cases() + [_gen_case(rng, rng.choice(["plain", "plain", "no_f11", "n1"])) for _ in range(60)] + [_boundary_case(rng) for _ in range(10)] + [_distance_case(rng) for _ in range(25)]
