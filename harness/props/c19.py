"""C19 — analysis tables are a faithful tabulation of the frame results.

Tie to the code: every case is a list of scenes, each a list of frames (ground truth + estimates in the
ego frame, optionally rendered into the map frame with an ego pose).  The REAL
`PerceptionEvaluationManager.add_frame_result` evaluates every frame; the REAL `PerceptionAnalyzer3D`
tabulates them (`add` per scene), and `df`, the `num_*` properties, `analyze()` (ratio / error /
confusion matrix, with label / scene / frame / area / status / distance selections, 1/3/9 area divisions)
and `get_object_status` are observed.  The Lean model receives the four pass/fail lists of every frame
(uuids, labels, and the harness' own ego-frame coordinates as exact rationals) and must reproduce the row
layout, counts, errors, summaries, rates, confusion matrix and tallies.  The oracle states the property on
the real outputs with references recomputed from the generated scene, independent of the model.

Known findings (the model reproduces them, the oracle fails on them, `known_finding` recognises exactly
the characterised deviation): F11 (double count of an ordinary GT paired with a failing estimate), N1
(per-label TP rate above one when TP pairs have different labels), N2 (`num_*` raise TypeError on an empty
table).
"""
from __future__ import annotations

import json
import math
import os
import tempfile
from fractions import Fraction
from pathlib import Path

from .. import core

os.environ.setdefault("TQDM_DISABLE", "1")  # the analyzer wraps its loops in tqdm

PROP = "C19"
EXHAUSTIVE = False
RULE = (
    "random scenes: 1..3 scenes x 1..5 frames, 0..6 ground truths on a sparse dyadic grid (ordinary / FP-labelled, uuids "
    "persistent across the frames of a scene), estimates derived per ground truth (near = TP, far or wrong label = FP "
    "carrying the GT [F11], none = FN, near an FP-labelled GT = TN or, with 'false_positive' a target label, FP carrying "
    "the FP-labelled GT) plus free estimates (GT-less FP); BASE_LINK or MAP frame with per-frame ego poses; detection / "
    "tracking; label policies default / allow_unknown / allow_any; matchable radius on/off; critical filter narrower than "
    "the manager filter (x/y or distance ranges); 1/3/9 area divisions; objects exactly on area / distance boundaries "
    "(BASE_LINK); 4..7 selections per case (label, scene, frame, area, status, uuid, distance, combinations, inverted "
    "distance); flavours: plain (F11 frequent), no_f11, n1 (TP pairs with different labels, finding N1), empty (finding N2); "
    "a case is non-trivial when its table has at least one row; distinct = distinct canonical case; "
    "first of all the witness inputs of the decision tables (kinds 'area', 'rows'): concrete inputs realising the valuations on which "
    "the code's regenerated table and the model's skeleton differ (none on an unchanged source)"
)
THEOREMS = [
    "PEval.C19." + t
    for t in [
        "rows_per_item", "rows_per_item_flat", "index_range", "frame_block",
        "status_counts_eq_lists", "num_estimation_eq",
        "num_gt_exact", "num_gt_eq_critical_partial", "passFail_wf",
        "num_gt_exact_passFail",
        "object_status_tallies", "object_status_total_exact", "object_status_once_partial",
        "pairs_eq_lists", "errors_eq_gt_minus_est", "yaw_error_wrapped",
        "summary_defs", "summary_max_min",
        "rates_in_unit_all", "rates_in_unit_label_partial", "label_tp_rate_exact",
        "confusion_sum", "confusion_none_iff",
        "area_idx_unique", "area_idx_inside",
        "num_props_empty",
        # decision tables extracted from the real code (harness/dt_c19.py), regenerated on every run
        "analyzer_table_check", "analyzer_code_table_eq_model", "area_code_table_eq_getAreaIdx", "table_area_spec",
        "table_on_grid_line", "rows_code_table_eq_model", "table_rows_per_item", "table_rows_examples",
    ]
]
TRUSTED = [
    "pandas (MultiIndex frames, xs, boolean masks, groupby(level=0).any(), concat) is modelled by lists of row pairs",
    "pyquaternion yaw_pitch_roll / HomogeneousMatrix inverse: ego-frame x, y, yaw are supplied by the harness from the generated scene (truth), the real values are compared within 1e-9",
    "numpy mean/std/sqrt/max/min/bincount: the model computes mean, RMS^2, variance, max|e|, min|e| exactly",
    "harness/dt_c19.py + harness/dtable.py + harness/dt_multi.py (decision-table translator): the symbolic numbers (rational linear "
    "forms that numpy stores in object arrays; a comparison is answered from one order atom per (position, grid line); the sign of "
    "c*max_x is the sign of c), the stub object / transform (an object exposes frame_id and state.position, the transform answers the "
    "ego-frame leaves), the result proxies of the row-status kernel (delegation to a real result with / without ground truth), the "
    "DFS over decisions, the encoding of the DataFrame as a number, the Lean emission; order atoms of different grid lines are "
    "treated as independent (over-approximation)",
]
ASSUMPTIONS = [
    "ground truths of one frame are pairwise distinct under DynamicObject.__eq__ and have distinct uuids (C03's hypothesis)",
    "max_x_position, max_y_position > 0",
    "columns speed, nn_plane, distance (square roots) and the metric-score columns of analyze().score are not modelled (AP/CLEAR belong to C04/C05)",
    "pass/fail target labels are those of the config (a paired row with a label outside target_labels+unknown makes get_confusion_matrix raise ValueError: outside the property's domain, reported as N3)",
    "add_frame is exercised through add() (a direct call raises KeyError because add() creates the transforms entry)",
    "analyze() on an empty table with keyword selections is not exercised",
    "evaluation_task fp_validation is not exercised (the manager cannot load the sample dataset for it); FP-labelled ground truths are exercised under detection/tracking",
]

F11 = "F11-analyzer-double-count"
N1 = "N1-analyzer-label-rate-above-one"
N2 = "N2-analyzer-empty-table-typeerror"

CORPUS_DIR = Path(__file__).resolve().parent.parent / "corpus" / "c19"
SAMPLE = str(core.REPO / "perception_eval" / "test" / "sample_data")
PI = math.pi
FPL = "false_positive"
COLS = ["x", "y", "yaw", "length", "width", "vx", "vy"]

_tmp = None


def _tmpdir():
    global _tmp
    if _tmp is None:
        _tmp = tempfile.mkdtemp(prefix="c19_")
    return _tmp


# ----------------------------------------------------------------------------- building real objects

def _yaw(k):
    """object yaw: k sixteenths of a half-turn"""
    return k * PI / 16.0


def _label(name):
    from perception_eval.common.label import AutowareLabel, Label

    l = AutowareLabel(name)
    return Label(l, l.value, [])


def _mk(o, t, frame_id, ego):
    """the real DynamicObject of a case object (ego-frame data), rendered into the map frame if asked"""
    from perception_eval.common.object import DynamicObject
    from perception_eval.common.schema import FrameID
    from perception_eval.common.shape import Shape, ShapeType
    from pyquaternion import Quaternion

    x, y, yaw = o["x"], o["y"], _yaw(o["yaw"])
    if frame_id == "map":
        ex, ey, ek = ego
        c, s = math.cos(_yaw(ek)), math.sin(_yaw(ek))
        x, y, yaw = ex + c * x - s * y, ey + s * x + c * y, yaw + _yaw(ek)
    vel = None if o["v"] is None else (o["v"][0], o["v"][1], 0.0)
    return DynamicObject(
        t, FrameID.MAP if frame_id == "map" else FrameID.BASE_LINK, (x, y, 0.0),
        Quaternion(axis=[0, 0, 1], angle=yaw), Shape(ShapeType.BOUNDING_BOX, (o["w"], o["len"], 1.5)),
        vel, o.get("conf", 0.9), _label(o["l"]), uuid=o["u"], pointcloud_num=10,
    )


def _config(case):
    from perception_eval.config import PerceptionEvaluationConfig

    L = case["labels"]
    d = {
        "evaluation_task": case["task"], "target_labels": L, "min_point_numbers": [0] * len(L),
        "label_prefix": "autoware", "merge_similar_labels": False,
        "center_distance_thresholds": [[1.0] * len(L)], "plane_distance_thresholds": [2.0],
        "iou_2d_thresholds": [0.5], "iou_3d_thresholds": [0.5],
    }
    if case["policy"] == "allow_unknown_flag":
        d["allow_matching_unknown"] = True
    elif case["policy"] != "default":
        d["matching_label_policy"] = case["policy"]
    else:
        d["allow_matching_unknown"] = False
    if case["range"]["kind"] == "xy":
        d["max_x_position"] = case["range"]["max_x"]
        d["max_y_position"] = case["range"]["max_y"]
    else:
        d["max_distance"] = case["range"]["max"]
        d["min_distance"] = case["range"]["min"]
    if case.get("radii") is not None:
        d["max_matchable_radii"] = case["radii"]
    return PerceptionEvaluationConfig(
        dataset_paths=[SAMPLE], frame_id=case["frame_id"], result_root_directory=_tmpdir(), evaluation_config_dict=d
    )


def _area_max(case):
    r = case["range"]
    return (r["max_x"], r["max_y"]) if r["kind"] == "xy" else (100.0, 100.0)


def _evaluate(case):
    """run the real manager on every scene; returns (config, [[PerceptionFrameResult]])"""
    from perception_eval.common.dataset import FrameGroundTruth
    from perception_eval.common.schema import FrameID
    from perception_eval.common.transform import HomogeneousMatrix
    from perception_eval.evaluation.result.perception_frame_config import CriticalObjectFilterConfig, PerceptionPassFailConfig
    from perception_eval.manager import PerceptionEvaluationManager
    from pyquaternion import Quaternion

    cfg = _config(case)
    L = case["labels"]
    scenes = []
    for sc in case["scenes"]:
        m = PerceptionEvaluationManager(cfg)
        for fr in sc:
            ego = fr.get("ego") or [0.0, 0.0, 0]
            if case["frame_id"] == "map":
                tf = HomogeneousMatrix((ego[0], ego[1], 0.0), Quaternion(axis=[0, 0, 1], angle=_yaw(ego[2])), FrameID.BASE_LINK, FrameID.MAP)
            else:
                tf = HomogeneousMatrix((0.0, 0.0, 0.0), (1.0, 0.0, 0.0, 0.0), FrameID.BASE_LINK, FrameID.MAP)
            t = fr["t"]
            gt = FrameGroundTruth(t, str(fr["n"]), [_mk(o, t, case["frame_id"], ego) for o in fr["gts"]], transforms=[tf])
            from harness import builders as _B  # registry with a history (replaced ego pose), see builders.give_history

            _B.maybe_history(gt, tf, ("c19", t, len(fr["gts"]), ego[0]))
            ests = [_mk(o, t, case["frame_id"], ego) for o in fr["ests"]]
            if case["crit"]["kind"] == "xy":
                crit = CriticalObjectFilterConfig(cfg, L, max_x_position_list=[case["crit"]["x"]] * len(L), max_y_position_list=[case["crit"]["y"]] * len(L))
            else:
                crit = CriticalObjectFilterConfig(cfg, L, max_distance_list=[case["crit"]["max"]] * len(L), min_distance_list=[case["crit"]["min"]] * len(L))
            pf = PerceptionPassFailConfig(cfg, L, matching_threshold_list=[case["thr"]] * len(L))
            m.add_frame_result(t, gt, ests, crit, pf)
        scenes.append(list(m.frame_results))
    return cfg, scenes


def _uid(o):
    return None if o is None else o.uuid


def _frame_lists(fr):
    """canonical pass/fail lists of a real frame result (+ what the model of PassFailResult needs)"""
    from perception_eval.common.threshold import get_label_threshold
    from perception_eval.evaluation.matching import MatchingMode

    pf = fr.pass_fail_result
    cfgp = pf.frame_pass_fail_config
    results = []
    for r in fr.object_results:
        lab = r.ground_truth_object.semantic_label if r.ground_truth_object is not None else r.estimated_object.semantic_label
        thr = get_label_threshold(lab, cfgp.target_labels, cfgp.matching_threshold_list)
        results.append([r.estimated_object.uuid, _uid(r.ground_truth_object), bool(r.is_result_correct(MatchingMode.PLANEDISTANCE, thr))])
    return {
        "n": int(fr.frame_name),
        "tp": [[r.estimated_object.uuid, _uid(r.ground_truth_object)] for r in pf.tp_object_results],
        "fp": [[r.estimated_object.uuid, _uid(r.ground_truth_object)] for r in pf.fp_object_results],
        "tn": [o.uuid for o in pf.tn_objects],
        "fn": [o.uuid for o in pf.fn_objects],
        "critical": [o.uuid for o in fr.frame_ground_truth.objects],
        "results": results,
    }


def _f(x):
    """a DataFrame number as a JSON value (NaN/None -> None)"""
    if x is None:
        return None
    try:
        x = float(x)
    except (TypeError, ValueError):
        return None
    return None if math.isnan(x) else x


def _cell(row):
    st = row["status"]
    if st is None or (isinstance(st, float) and math.isnan(st)):
        return None
    a = _f(row["area"])
    return {"st": str(st), "u": row["uuid"], "l": row["label"], "x": _f(row["x"]), "y": _f(row["y"]), "yaw": _f(row["yaw"]),
            "area": None if a is None else int(a), "frame": int(row["frame"]), "scene": int(row["scene"]),
            "frame_id": row["frame_id"]}


def _rows(df):
    rows = []
    recs = df.to_dict("records")
    idx = list(df.index)
    if len(idx) % 2:
        return {"odd": len(idx)}
    for k in range(0, len(idx), 2):
        (i0, s0), (i1, s1) = idx[k], idx[k + 1]
        rows.append([int(i0), s0, _cell(recs[k]), int(i1), s1, _cell(recs[k + 1])])
    return rows


def _sel_kwargs(sel):
    kw = {}
    for k in ("label", "scene", "frame", "area", "status", "uuid", "distance"):
        if k in sel and sel[k] is not None:
            v = sel[k]
            kw[k] = tuple(v) if k == "distance" else v
    return kw


def _analysis(an, sel, labels):
    """one selection through the real analyzer; 'mode' analyze = analyze(), parts = the public pieces"""
    import numpy as np

    kw = _sel_kwargs(sel)
    try:
        if sel.get("mode", "analyze") == "analyze":
            res = an.analyze(**kw)
            if res.score is None:
                return {"none": True}
            ratio_df, err_df, cm_df = res.score, res.error, res.confusion_matrix
            kw2 = dict(kw)
            dist = kw2.pop("distance", None)
            df = an.get(**kw2)
            if dist is not None:
                df = an.filter_by_distance(dist, df)
        else:
            kw2 = dict(kw)
            dist = kw2.pop("distance", None)
            df = an.get(**kw2)
            if dist is not None:
                df = an.filter_by_distance(dist, df)
            if len(df) == 0:
                return {"none": True}
            ratio_df = an.summarize_ratio(df=df)
            err_df = an.summarize_error(df=df)
            cm_df = an.get_confusion_matrix(df=df)
    except Exception as e:
        return {"err": type(e).__name__}
    ratio = {str(l): [float(ratio_df.loc[l, c]) for c in ("TP", "FP", "TN", "FN")] for l in ratio_df.index}
    error = {}
    for l in ["ALL"] + labels:
        error[l] = {}
        for c in COLS:
            r = err_df.loc[(l, c)]
            error[l][c] = None if math.isnan(float(r["average"])) else {k: float(r[k]) for k in ("average", "rms", "std", "max", "min")}
    cm = None
    cm_labels = None
    if cm_df is not None:
        cm = [[int(v) for v in row] for row in np.array(cm_df)]
        cm_labels = [str(x) for x in cm_df.index]
    # the selected table, for the oracle (number of paired rows)
    recs = df.to_dict("records")
    paired = 0
    for k in range(0, len(recs), 2):
        if _cell(recs[k]) is not None and _cell(recs[k + 1]) is not None:
            paired += 1
    return {"ratio": ratio, "error": error, "cm": cm, "cm_labels": cm_labels, "paired_rows": paired, "n_rows": len(recs)}


def _status(frames):
    from perception_eval.evaluation.result.perception_frame_result import get_object_status

    return [{"uuid": s.uuid, "total": list(s.total_frame_nums), "tp": list(s.tp_frame_nums), "fp": list(s.fp_frame_nums),
             "tn": list(s.tn_frame_nums), "fn": list(s.fn_frame_nums)} for s in get_object_status(frames)]


def _run_area(case):
    """kind 'area': the real generate_area_points + get_area_idx on a real object at the ego-frame position (x, y)"""
    from perception_eval.common.schema import FrameID
    from perception_eval.common.transform import HomogeneousMatrix, TransformDict
    from perception_eval.evaluation.result.object_result import DynamicObjectWithPerceptionResult
    from perception_eval.tool.utils import generate_area_points, get_area_idx

    o = _mk({"u": "o", "l": "car", "x": case["x"], "y": case["y"], "yaw": 0, "v": None, "w": 2.0, "len": 4.0}, 1000, "base_link", None)
    tf = TransformDict([HomogeneousMatrix((0.0, 0.0, 0.0), (1.0, 0.0, 0.0, 0.0), FrameID.BASE_LINK, FrameID.MAP)])
    try:
        ur, bl = generate_area_points(case["division"], case["max_x"], case["max_y"])
        out = {"areas": {"ur": [[float(a), float(b)] for a, b in ur], "bl": [[float(a), float(b)] for a, b in bl]}}
    except Exception as e:
        return {"err": type(e).__name__, "stage": "generate_area_points"}
    try:
        arg = DynamicObjectWithPerceptionResult(o, None, transforms=tf) if case.get("wrapped") else o
        r = get_area_idx(arg, ur, bl, tf)
        out["area"] = None if r is None else int(r)
    except Exception as e:
        out["err"] = type(e).__name__
        out["stage"] = "get_area_idx"
    return out


def _run_rows(case):
    """kind 'rows': the real PerceptionAnalyzer3D.add on ONE frame whose pass/fail lists hold real results / objects"""
    from types import SimpleNamespace

    from perception_eval.common.schema import FrameID
    from perception_eval.common.transform import HomogeneousMatrix, TransformDict
    from perception_eval.evaluation.result.object_result import DynamicObjectWithPerceptionResult as Res
    from perception_eval.tool import PerceptionAnalyzer3D

    cfg = _config({"task": "detection", "frame_id": "base_link", "labels": ["car", "pedestrian"], "policy": "default",
                   "range": {"kind": "xy", "max_x": 96.0, "max_y": 96.0}})
    tf = TransformDict([HomogeneousMatrix((0.0, 0.0, 0.0), (1.0, 0.0, 0.0, 0.0), FrameID.BASE_LINK, FrameID.MAP)])
    mk = lambda u, x: _mk({"u": u, "l": "car", "x": x, "y": 5.0, "yaw": 0, "v": [1.0, 0.0], "w": 2.0, "len": 4.0}, 1000, "base_link", None)  # noqa: E731
    a, b, c, d = case["counts"]
    lists = [[], [], [], []]
    j = 0
    for kind, cnt in enumerate((a, b, c, d)):
        for i in range(cnt):
            e, g = mk(f"e{j}", 10.0 + 20.0 * j), mk(f"g{j}", 10.5 + 20.0 * j)
            if kind < 2:
                none = (case["tp_none"] if kind == 0 else case["fp_none"])[i]
                lists[kind].append(Res(e, None if none else g, transforms=tf))
            else:
                lists[kind].append(g)
            j += 1
    pf = SimpleNamespace(tp_object_results=lists[0], fp_object_results=lists[1], tn_objects=lists[2], fn_objects=lists[3])
    frame = SimpleNamespace(frame_name="7", pass_fail_result=pf, frame_ground_truth=SimpleNamespace(transforms=tf))
    try:
        an = PerceptionAnalyzer3D(cfg)
        an.add([frame])
        rows = _rows(an.df)
    except Exception as e:
        return {"err": type(e).__name__, "stage": "add"}
    return {"rows": rows}


def run_impl(case):
    if case.get("kind") == "area":
        return _run_area(case)
    if case.get("kind") == "rows":
        return _run_rows(case)
    from perception_eval.tool import PerceptionAnalyzer3D

    try:
        cfg, scenes = _evaluate(case)
    except Exception as e:
        return {"err": type(e).__name__, "stage": "manager"}
    out = {"frames": [[_frame_lists(fr) for fr in sc] for sc in scenes]}
    try:
        an = PerceptionAnalyzer3D(cfg, num_area_division=case["division"])
    except Exception as e:
        out["err"] = type(e).__name__
        out["stage"] = "analyzer"
        return out
    out["areas"] = {"ur": [[float(a), float(b)] for a, b in an.upper_rights], "bl": [[float(a), float(b)] for a, b in an.bottom_lefts]}
    try:
        for sc in scenes:
            an.add(sc)
    except Exception as e:
        out["err"] = type(e).__name__
        out["stage"] = "add"
        return out
    out["num_scene"] = an.num_scene
    out["num_frame"] = an.num_frame
    out["rows"] = _rows(an.df)
    num = {}
    for k, attr in (("gt", "num_ground_truth"), ("est", "num_estimation"), ("tp", "num_tp"), ("fp", "num_fp"), ("tn", "num_tn"), ("fn", "num_fn")):
        try:
            num[k] = int(getattr(an, attr))
        except Exception as e:
            num[k] = {"err": type(e).__name__}
    out["num"] = num
    out["analyses"] = [_analysis(an, sel, case["labels"]) for sel in case["sels"]]
    try:
        out["status"] = {"scenes": [_status(sc) for sc in scenes], "all": _status([f for sc in scenes for f in sc])}
    except Exception as e:
        out["status"] = {"err": type(e).__name__}
    return out


# ----------------------------------------------------------------------------- model side

_EMPTY_RAISES = None


def _empty_raises():
    """does a num_* property of the analyzer under test raise on the initial empty table (finding N2)?"""
    global _EMPTY_RAISES
    if _EMPTY_RAISES is None:
        from perception_eval.tool import PerceptionAnalyzer3D

        case = {"task": "detection", "frame_id": "base_link", "labels": ["car"], "policy": "default",
                "range": {"kind": "xy", "max_x": 100.0, "max_y": 100.0}}
        an = PerceptionAnalyzer3D(_config(case))
        an.add([])
        try:
            _EMPTY_RAISES = not (int(an.num_tp) == 0)
        except Exception:
            _EMPTY_RAISES = True
    return _EMPTY_RAISES


def _tau(k):
    """half-turns of the float yaw the real object is built with"""
    return Fraction(_yaw(k)) / Fraction(PI)


def _norm_k(k):
    """representative in (-16, 16] of a yaw given in sixteenths of a half-turn"""
    k = k % 32
    return k - 32 if k > 16 else k


def _mobj(o):
    return {"u": o["u"], "l": o["l"], "x": core.q(o["x"]), "y": core.q(o["y"]), "yaw": core.q(_tau(_norm_k(o["yaw"]))),
            "w": core.q(o["w"]), "len": core.q(o["len"]),
            "vx": None if o["v"] is None else core.q(o["v"][0]), "vy": None if o["v"] is None else core.q(o["v"][1])}


def _objs_of(fr):
    d = {}
    for o in fr["gts"] + fr["ests"]:
        d[o["u"]] = o
    return d


def _msel(sel):
    def lst(v):
        return None if v is None else (list(v) if isinstance(v, (list, tuple)) else [v])

    return {"labels": lst(sel.get("label")), "scenes": lst(sel.get("scene")), "frames": lst(sel.get("frame")),
            "areas": lst(sel.get("area")), "statuses": lst(sel.get("status")), "uuids": lst(sel.get("uuid")),
            "distance": None if sel.get("distance") is None else [core.q(sel["distance"][0]), core.q(sel["distance"][1])]}


def model_requests(case, out):
    if case.get("kind") in ("area", "rows"):
        return []  # these inputs are judged by the oracle; their tie to the model is the table theorem
    if "frames" not in out or "rows" not in out:
        return []
    mx, my = _area_max(case)
    scenes = []
    pf_reqs = []
    for sc_case, sc_out in zip(case["scenes"], out["frames"]):
        frames = []
        for fr, lists in zip(sc_case, sc_out):
            objs = _objs_of(fr)
            mo = lambda u: None if u is None else _mobj(objs[u])  # noqa: E731
            frames.append({"n": lists["n"], "tp": [[mo(e), mo(g)] for e, g in lists["tp"]], "fp": [[mo(e), mo(g)] for e, g in lists["fp"]],
                           "tn": [mo(u) for u in lists["tn"]], "fn": [mo(u) for u in lists["fn"]], "critical": [mo(u) for u in lists["critical"]]})
            pf_reqs.append({"op": "passfail", "n": lists["n"], "critical": [mo(u) for u in lists["critical"]],
                            "results": [{"est": mo(e), "gt": mo(g), "correct": c} for e, g, c in lists["results"]]})
        scenes.append(frames)
    req = {"op": "analyze", "empty_raises": _empty_raises(), "division": case["division"], "max_x": core.q(mx), "max_y": core.q(my), "labels": case["labels"],
           "scenes": scenes, "sels": [_msel(s) for s in case["sels"]]}
    return [req] + pf_reqs


def _angle_close(a, b):
    d = (a - b) % (2 * PI)
    return min(d, 2 * PI - d) <= 1e-9


def _yaw_pi_pairs(case, out):
    """does some paired row have a yaw difference of exactly one half-turn (wrap boundary)?"""
    for sc_case, sc_out in zip(case["scenes"], out["frames"]):
        for fr, lists in zip(sc_case, sc_out):
            objs = _objs_of(fr)
            for e, g in lists["tp"] + lists["fp"]:
                if g is not None and abs(_norm_k(objs[g]["yaw"]) - _norm_k(objs[e]["yaw"])) == 16:
                    return True
    return False


def _on_boundary(case):
    """map-frame case with an object exactly on an area or distance boundary (float round trip may flip)"""
    if case["frame_id"] != "map":
        return False
    mx, my = _area_max(case)
    bx = {Fraction(mx) * s for s in (Fraction(1), Fraction(1, 3), Fraction(-1, 3), Fraction(-1))}
    by = {Fraction(my) * s for s in (Fraction(1), Fraction(1, 3), Fraction(-1, 3), Fraction(-1))}
    ds = set()
    for s in case["sels"]:
        if s.get("distance") is not None:
            ds |= {Fraction(s["distance"][0]) ** 2, Fraction(s["distance"][1]) ** 2}
    for sc in case["scenes"]:
        for fr in sc:
            for o in fr["gts"] + fr["ests"]:
                x, y = Fraction(o["x"]), Fraction(o["y"])
                if x in bx or y in by or (x * x + y * y) in ds:
                    return True
    return False


def compare(case, out, resps):
    if not resps:
        return None
    r = resps[0]
    if "err" in out or "err" in r:
        return None if out.get("err") == r.get("err") and out.get("stage") in (None, "analyzer") else f"impl {out.get('err')}@{out.get('stage')} != model {r.get('err')}"
    if _on_boundary(case):
        return "skip"
    # areas
    for k in ("ur", "bl"):
        a, b = out["areas"][k], r["areas"][k]
        if len(a) != len(b) or any(not core.close(p[0], core.unq(q[0])) or not core.close(p[1], core.unq(q[1])) for p, q in zip(a, b)):
            return f"area points {k}: impl {a} != model {b}"
    if r.get("area_error"):
        return "model: get_area_idx matched more than one area"
    if (out["num_scene"], out["num_frame"]) != (r["num_scene"], r["num_frame"]):
        return f"num_scene/num_frame impl {(out['num_scene'], out['num_frame'])} != model {(r['num_scene'], r['num_frame'])}"
    # rows
    rows = out["rows"]
    if isinstance(rows, dict):
        return f"odd number of rows {rows}"
    if len(rows) != len(r["rows"]):
        return f"table has {len(rows)} row pairs, model {len(r['rows'])}"
    for a, b in zip(rows, r["rows"]):
        if a[0] != b[0] or a[3] != b[0] or a[1] != "ground_truth" or a[4] != "estimation":
            return f"row index/side impl {a[:2]},{a[3:5]} != model index {b[0]}"
        for side, ca, cb in (("ground_truth", a[2], b[1]), ("estimation", a[5], b[2])):
            if (ca is None) != (cb is None):
                return f"row {a[0]} {side}: impl {'NaN' if ca is None else ca['st']} vs model {'NaN' if cb is None else cb['st']}"
            if ca is None:
                continue
            for k in ("st", "u", "l", "area", "frame", "scene"):
                if ca[k] != cb[k]:
                    return f"row {a[0]} {side} column {k}: impl {ca[k]!r} != model {cb[k]!r}"
            if not core.close(ca["x"], core.unq(cb["x"])) or not core.close(ca["y"], core.unq(cb["y"])):
                return f"row {a[0]} {side} position: impl ({ca['x']},{ca['y']}) != model ({float(core.unq(cb['x']))},{float(core.unq(cb['y']))})"
            if not _angle_close(ca["yaw"], float(core.unq(cb["yaw"])) * PI):
                return f"row {a[0]} {side} yaw: impl {ca['yaw']} != model {float(core.unq(cb['yaw'])) * PI}"
    # counts
    for k in ("gt", "est", "tp", "fp", "tn", "fn"):
        if out["num"][k] != r["num"][k]:
            return f"num_{k}: impl {out['num'][k]} != model {r['num'][k]}"
    # analyses
    yaw_pi = _yaw_pi_pairs(case, out)
    for i, (a, b) in enumerate(zip(out["analyses"], r["analyses"])):
        tag = f"selection {i} {case['sels'][i]}"
        if "err" in a or "err" in b:
            if a.get("err") != b.get("err"):
                return f"{tag}: impl {a.get('err', 'ok')} != model {b.get('err', 'ok')}"
            continue
        if a.get("none") or b.get("none"):
            if bool(a.get("none")) != bool(b.get("none")):
                return f"{tag}: impl none={a.get('none')} model none={b.get('none')}"
            continue
        mr = {x[0]: x[1:] for x in b["ratio"]}
        if list(a["ratio"]) != [x[0] for x in b["ratio"]]:
            return f"{tag}: ratio labels impl {list(a['ratio'])} != model {[x[0] for x in b['ratio']]}"
        for l, vals in a["ratio"].items():
            for name, v, w in zip(("TP", "FP", "TN", "FN"), vals, mr[l]):
                if not core.close(v, core.unq(w)):
                    return f"{tag}: rate {l}/{name} impl {v} != model {w}"
        me = {x[0]: {c: s for c, s in x[1]} for x in b["error"]}
        for l, cols in a["error"].items():
            for c, s in cols.items():
                ms = me[l][c]
                if (s is None) != (ms is None):
                    return f"{tag}: error {l}/{c} impl {s} vs model {ms}"
                if s is None:
                    continue
                k = PI if c == "yaw" else 1.0
                ref = {"average": float(core.unq(ms["average"])) * k, "rms": math.sqrt(float(core.unq(ms["rms2"]))) * k,
                       "std": math.sqrt(float(core.unq(ms["var"]))) * k, "max": float(core.unq(ms["max"])) * k,
                       "min": float(core.unq(ms["min"])) * k}
                for key in ("average", "rms", "std", "max", "min"):
                    if c == "yaw" and yaw_pi and key in ("average", "std"):
                        continue
                    tol = 1e-7 if key == "std" else 1e-9  # sqrt of a variance that is 0 up to rounding
                    if not core.close(s[key], ref[key], abs_=tol):
                        return f"{tag}: error {l}/{c}/{key} impl {s[key]} != model {ref[key]}"
        if a["cm"] != b["cm"]:
            return f"{tag}: confusion matrix impl {a['cm']} != model {b['cm']}"
    # get_object_status
    if "err" in out["status"]:
        return f"get_object_status raised {out['status']['err']}"
    if out["status"]["all"] != r["status"]["all"] or out["status"]["scenes"] != r["status"]["scenes"]:
        return f"get_object_status impl {out['status']['all']} != model {r['status']['all']}"
    # PassFailResult.evaluate
    k = 1
    for sc in out["frames"]:
        for lists in sc:
            b = resps[k]
            k += 1
            for key in ("tp", "fp", "tn", "fn"):
                if lists[key] != b[key]:
                    return f"pass/fail list {key} of frame {lists['n']}: impl {lists[key]} != model {b[key]}"
    return None


# ----------------------------------------------------------------------------- oracle (independent of the model)

def _wrap(d):
    while d > PI:
        d -= 2 * PI
    while d < -PI:
        d += 2 * PI
    return d


def _summ(errs):
    n = len(errs)
    if n == 0:
        return None
    avg = math.fsum(errs) / n
    return {"average": avg, "rms": math.sqrt(math.fsum(e * e for e in errs) / n),
            "max": max(abs(e) for e in errs), "min": min(abs(e) for e in errs)}


def _check(case, out):
    """the property statement on the real outputs -> list of (tag, info, message)"""
    fails = []
    if "err" in out:
        return [("exception", None, f"{out.get('stage')} raised {out['err']}")]
    frames = [(si, fr, lists) for si, (sc_case, sc_out) in enumerate(zip(case["scenes"], out["frames"])) for fr, lists in zip(sc_case, sc_out)]
    items = sum(len(l["tp"]) + len(l["fp"]) + len(l["tn"]) + len(l["fn"]) for _, _, l in frames)
    # --- one row pair per TP/FP/TN/FN item, in ego-frame coordinates
    rows = out["rows"]
    if isinstance(rows, dict) or len(rows) != items:
        fails.append(("layout", None, f"table has {rows if isinstance(rows, dict) else len(rows)} row pairs for {items} items"))
    else:
        k = 0
        for si, fr, l in frames:
            objs = _objs_of(fr)
            exp = [("TP", g, e) for e, g in l["tp"]] + [("FP", g, e) for e, g in l["fp"]] + [("TN", g, None) for g in l["tn"]] + [("FN", g, None) for g in l["fn"]]
            for st, g, e in exp:
                row = rows[k]
                if row[0] != k or row[3] != k or row[1] != "ground_truth" or row[4] != "estimation":
                    fails.append(("layout", None, f"row pair {k}: index/side {row[:2]} {row[3:5]}"))
                for side, u, cell in (("ground_truth", g, row[2]), ("estimation", e, row[5])):
                    if (u is None) != (cell is None):
                        fails.append(("layout", None, f"row {k} {side}: expected {'NaN row' if u is None else u}, got {cell}"))
                    elif u is not None:
                        o = objs[u]
                        if cell["st"] != st or cell["u"] != u or cell["l"] != o["l"] or cell["frame"] != l["n"] or cell["scene"] != si:
                            fails.append(("layout", None, f"row {k} {side}: expected {st} {u} {o['l']} frame {l['n']} scene {si}, got {cell}"))
                        if not (core.close(cell["x"], o["x"]) and core.close(cell["y"], o["y"]) and _angle_close(cell["yaw"], _yaw(o["yaw"]))):
                            fails.append(("ego", None, f"row {k} {side} {u}: ego-frame pose should be ({o['x']},{o['y']},{_yaw(_norm_k(o['yaw']))}), got ({cell['x']},{cell['y']},{cell['yaw']})"))
                        if not (-PI - 1e-12 <= cell["yaw"] <= PI + 1e-12):
                            fails.append(("yaw_range", None, f"row {k} {side} yaw {cell['yaw']} outside [-pi, pi]"))
                k += 1
    # --- counts
    num = out["num"]
    want = {"tp": sum(len(l["tp"]) for _, _, l in frames), "fp": sum(len(l["fp"]) for _, _, l in frames),
            "tn": sum(len(l["tn"]) for _, _, l in frames), "fn": sum(len(l["fn"]) for _, _, l in frames),
            "est": sum(len(l["results"]) for _, _, l in frames), "gt": sum(len(l["critical"]) for _, _, l in frames)}
    # FP results carrying an ordinary ground truth (the characterisation of F11)
    f11_pairs = []
    for si, fr, l in frames:
        objs = _objs_of(fr)
        for e, g in l["fp"]:
            if g is not None and objs[g]["l"] != FPL:
                f11_pairs.append((si, l["n"], g))
    for k in ("tp", "fp", "tn", "fn", "est", "gt"):
        v = num[k]
        if isinstance(v, dict):
            if items == 0:
                fails.append(("empty_counts", v["err"], f"num_{k} raised {v['err']} on an empty table (should be 0)"))
            else:
                fails.append(("exception", None, f"num_{k} raised {v['err']}"))
        elif v != want[k]:
            if k == "gt":
                fails.append(("gt_count", v - want[k] == len(f11_pairs) and len(f11_pairs) > 0,
                              f"num_ground_truth = {v}, critical ground truths = {want[k]} (FP results carrying an ordinary GT: {len(f11_pairs)})"))
            else:
                fails.append(("counts", None, f"num_{k} = {v}, pass/fail lists give {want[k]}"))
    # --- analyses
    for i, (sel, a) in enumerate(zip(case["sels"], out["analyses"])):
        tag = f"selection {i} {sel}"
        if "err" in a:
            if not (a["err"] == "AssertionError" and sel.get("distance") is not None and sel["distance"][0] >= sel["distance"][1]):
                fails.append(("exception", None, f"{tag}: raised {a['err']}"))
            continue
        if a.get("none"):
            if not _sel_kwargs(sel) and items > 0:
                fails.append(("layout", None, f"{tag}: nothing to analyse although the table has {items} items"))
            continue
        for l, vals in a["ratio"].items():
            for name, v in zip(("TP", "FP", "TN", "FN"), vals):
                if not (0.0 <= v <= 1.0):
                    fails.append(("rates", (i, l, name, v), f"{tag}: rate {l}/{name} = {v} outside [0,1]"))
        if a["cm"] is None:
            if a["paired_rows"] != 0:
                fails.append(("cm_sum", None, f"{tag}: no confusion matrix although {a['paired_rows']} rows are paired"))
        else:
            tot = sum(sum(r) for r in a["cm"])
            if tot != a["paired_rows"]:
                fails.append(("cm_sum", None, f"{tag}: confusion matrix sums to {tot}, paired rows {a['paired_rows']}"))
        for l, cols in a["error"].items():
            y = cols["yaw"]
            if y is not None and y["max"] > PI + 1e-9:
                fails.append(("yaw_range", None, f"{tag}: yaw error {l} max {y['max']} > pi"))
        # reference recomputation from the generated scene (no selection, and plain label selections)
        if not _sel_kwargs(sel):
            pairs = []
            for si, fr, l in frames:
                objs = _objs_of(fr)
                for e, g in l["tp"] + l["fp"]:
                    if g is not None:
                        pairs.append((objs[g], objs[e]))
            tot_pairs = len(pairs)
            if a["paired_rows"] != tot_pairs or (a["cm"] is not None and sum(sum(r) for r in a["cm"]) != tot_pairs):
                fails.append(("cm_sum", None, f"{tag}: paired rows {a['paired_rows']} / matrix total, frames have {tot_pairs} paired results"))
            for lab in ["ALL"] + case["labels"]:
                ps = [p for p in pairs if lab == "ALL" or p[0]["l"] == lab]
                for c in COLS:
                    if c in ("x", "y"):
                        errs = [g[c] - e[c] for g, e in ps]
                    elif c == "yaw":
                        errs = [_wrap(_yaw(_norm_k(g["yaw"])) - _yaw(_norm_k(e["yaw"]))) for g, e in ps]
                    elif c == "length":
                        errs = [g["len"] - e["len"] for g, e in ps]
                    elif c == "width":
                        errs = [g["w"] - e["w"] for g, e in ps]
                    else:
                        j = 0 if c == "vx" else 1
                        errs = [g["v"][j] - e["v"][j] for g, e in ps if g["v"] is not None and e["v"] is not None]
                    ref = _summ(errs)
                    got = a["error"][lab][c]
                    if (ref is None) != (got is None):
                        fails.append(("error", None, f"{tag}: error {lab}/{c}: expected {ref}, got {got}"))
                    elif ref is not None:
                        keys = ("rms", "max", "min") if (c == "yaw" and any(abs(abs(x) - PI) < 1e-9 for x in errs)) else ("average", "rms", "max", "min")
                        for key in keys:
                            if not core.close(got[key], ref[key]):
                                fails.append(("error", None, f"{tag}: error {lab}/{c}/{key} = {got[key]}, GT - estimate gives {ref[key]}"))
    # --- per-object tallies: every ground truth once per frame in which it is critical
    st = out["status"]
    if "err" in st:
        fails.append(("exception", None, f"get_object_status raised {st['err']}"))
    else:
        groups = [(f"scene {si}", [(fr, l) for s2, fr, l in frames if s2 == si], st["scenes"][si]) for si in range(len(case["scenes"]))]
        groups.append(("all scenes", [(fr, l) for _, fr, l in frames], st["all"]))
        for name, fl, got in groups:
            exp = {}
            for fr, l in fl:
                for key, us in (("tp", [g for _, g in l["tp"]]), ("fp", [g for _, g in l["fp"] if g is not None and _objs_of(fr)[g]["l"] == FPL]), ("tn", l["tn"]), ("fn", l["fn"])):
                    for u in us:
                        exp.setdefault(u, {"total": [], "tp": [], "fp": [], "tn": [], "fn": []})
                        exp[u][key].append(l["n"])
                for u in l["critical"]:
                    exp.setdefault(u, {"total": [], "tp": [], "fp": [], "tn": [], "fn": []})
                    exp[u]["total"].append(l["n"])
            extra = {}
            for fr, l in fl:
                for e, g in l["fp"]:
                    if g is not None and _objs_of(fr)[g]["l"] != FPL:
                        extra.setdefault(g, []).append(l["n"])
            gotd = {s["uuid"]: s for s in got}
            if len(gotd) != len(got):
                fails.append(("status_once", False, f"{name}: a uuid has two status records"))
            if set(gotd) != set(exp):
                fails.append(("status_once", False, f"{name}: status records for {sorted(gotd)} but ground truths {sorted(exp)}"))
                continue
            for u, e in exp.items():
                s = gotd[u]
                if sorted(s["total"]) != sorted(e["total"]) or any(sorted(s[k]) != sorted(e[k]) for k in ("tp", "fp", "tn", "fn")):
                    # exactly F11: one extra FP entry (and total entry) per frame in which an FP result carries this ordinary GT
                    x = extra.get(u, [])
                    exact = bool(x) and sorted(s["total"]) == sorted(e["total"] + x) and sorted(s["fp"]) == sorted(e["fp"] + x) and all(sorted(s[k]) == sorted(e[k]) for k in ("tp", "tn", "fn"))
                    fails.append(("status_once", exact, f"{name}: ground truth {u} tallied total={s['total']} tp={s['tp']} fp={s['fp']} tn={s['tn']} fn={s['fn']}, critical in frames {e['total']}"))
    return fails


def _oracle_area(case, out):
    """the analyzer must be able to tabulate an item at ANY ego-frame position: get_area_idx answers None or the index of a
    rectangle of the grid that strictly contains the position, and never raises"""
    x, y = Fraction(case["x"]), Fraction(case["y"])
    where = f"division {case['division']}, max ({case['max_x']}, {case['max_y']}), ego-frame position ({case['x']}, {case['y']})"
    if "err" in out:
        return f"{out.get('stage')} raised {out['err']} ({where}): the analyzer cannot tabulate an item there"
    ur, bl = out["areas"]["ur"], out["areas"]["bl"]
    inside = [i for i, (u, b) in enumerate(zip(ur, bl)) if Fraction(b[0]) < x < Fraction(u[0]) and Fraction(u[1]) < y < Fraction(b[1])]
    # independent reference: the thirds of [-max, max] (exact), only when the bounds are thirds-exact in floats
    mx, my = Fraction(case["max_x"]), Fraction(case["max_y"])
    nx = 1 if case["division"] == 1 else 3
    ny = 3 if case["division"] == 9 else 1
    in_x = any(-mx + 2 * mx * k / nx < x < -mx + 2 * mx * (k + 1) / nx for k in range(nx))
    in_y = any(-my + 2 * my * k / ny < y < -my + 2 * my * (k + 1) / ny for k in range(ny))
    a = out["area"]
    if a is None:
        if in_x and in_y:
            return f"get_area_idx = None although the position lies strictly inside a cell ({where})"
        return None
    if not (in_x and in_y):
        return f"get_area_idx = {a} although the position lies on a grid line or outside the field ({where})"
    if inside != [a]:
        return f"get_area_idx = {a}, but the rectangles of the grid strictly containing the position are {inside} ({where})"
    return None


def _oracle_rows(case, out):
    """one row pair per TP, FP, TN, FN item, in this order, numbered 0, 1, ...; TP / FP: (ground-truth row or the all-None row,
    estimation row) with the list's status; TN / FN: (ground-truth row, all-None row)"""
    if "err" in out:
        return f"{out.get('stage')} raised {out['err']} for a frame with counts {case['counts']}"
    rows = out["rows"]
    a, b, c, d = case["counts"]
    exp = []
    j = 0
    for kind, cnt in enumerate((a, b, c, d)):
        for i in range(cnt):
            st = ("TP", "FP", "TN", "FN")[kind]
            if kind < 2:
                none = (case["tp_none"] if kind == 0 else case["fp_none"])[i]
                exp.append((None if none else (st, f"g{j}"), (st, f"e{j}")))
            else:
                exp.append(((st, f"g{j}"), None))
            j += 1
    if isinstance(rows, dict) or len(rows) != len(exp):
        return f"table has {rows if isinstance(rows, dict) else len(rows)} row pairs for {len(exp)} items (counts {case['counts']})"
    for k, (row, (eg, ee)) in enumerate(zip(rows, exp)):
        if row[0] != k or row[3] != k or row[1] != "ground_truth" or row[4] != "estimation":
            return f"row pair {k}: index/side {row[:2]} {row[3:5]}"
        for side, want, cell in (("ground_truth", eg, row[2]), ("estimation", ee, row[5])):
            got = None if cell is None else (cell["st"], cell["u"])
            if got != want:
                return f"row {k} {side}: expected {want or 'the all-None row'}, got {got or 'the all-None row'} (counts {case['counts']}, tp_none {case['tp_none']}, fp_none {case['fp_none']})"
            if cell is not None and (cell["frame"] != 7 or cell["scene"] != 0):
                return f"row {k} {side}: frame/scene {cell['frame']}/{cell['scene']}, expected 7/0"
    return None


def oracle(case, out):
    if case.get("kind") == "area":
        return _oracle_area(case, out)
    if case.get("kind") == "rows":
        return _oracle_rows(case, out)
    fails = _check(case, out)
    if not fails:
        return None
    # clauses that a listed finding explains go last, so that a new violation is named first
    explained = lambda f: (f[0] in ("gt_count", "status_once") and f[1] is True) or f[0] == "empty_counts" or (f[0] == "rates" and _n1_explains(case, out, f[1]))  # noqa: E731
    fails = [f for f in fails if not explained(f)] + [f for f in fails if explained(f)]
    return "; ".join(m for _, _, m in fails[:6]) + (f" (+{len(fails) - 6} more)" if len(fails) > 6 else "")


def _n1_explains(case, out, info):
    """a rate failure that is exactly N1: a per-label TP rate above one on a label carried by a TP estimate whose GT has another label"""
    i, lab, name, v = info
    if lab == "ALL" or name != "TP" or not v > 1.0:
        return False
    for sc_case, sc_out in zip(case["scenes"], out["frames"]):
        for fr, l in zip(sc_case, sc_out):
            objs = _objs_of(fr)
            for e, g in l["tp"]:
                if objs[e]["l"] == lab and objs[g]["l"] != lab:
                    return True
    return False


def known_finding(case, out, failure):
    if case.get("kind") in ("area", "rows"):
        return None
    fails = _check(case, out)
    if not fails:
        return None
    ids = []
    for tag, info, _ in fails:
        if tag in ("gt_count", "status_once") and info is True:
            ids.append(F11)
        elif tag == "rates" and _n1_explains(case, out, info):
            a = out["analyses"][info[0]]
            if all(0.0 <= x <= 1.0 for x in a["ratio"]["ALL"]):
                ids.append(N1)
            else:
                return None
        elif tag == "empty_counts" and info == "TypeError":
            ids.append(N2)
        else:
            return None  # some clause fails in a way no listed finding explains
    for k in (F11, N1, N2):
        if k in ids:
            return k
    return None


# ----------------------------------------------------------------------------- generation

GRID = [(-72, -36), (-72, 0), (-72, 36), (-48, -24), (-48, 12), (-24, -36), (-24, 0), (-24, 36), (0, -24), (0, 24),
        (12, -42), (12, 6), (24, -36), (24, 36), (36, 0), (48, -24), (48, 12), (60, 36), (72, -36), (72, 0), (72, 36),
        (32, 16), (-32, -16), (32, -16), (64, 16), (-64, 16), (16, 32), (40, -40)]
LABELS = ["car", "bicycle", "pedestrian", "motorbike"]


def _gen_obj(rng, u, label, x, y, yaw=None, vel="rand"):
    if vel == "rand":
        vel = None if rng.random() < 0.2 else [core.dyadic(rng, -8, 8, 4), core.dyadic(rng, -8, 8, 4)]
    return {"u": u, "l": label, "x": float(x), "y": float(y), "yaw": rng.randint(-15, 16) if yaw is None else yaw,
            "v": vel, "w": core.dyadic(rng, 1, 3, 4), "len": core.dyadic(rng, 2, 6, 4)}


def _gen_frame(rng, case, n, k_gt, opts):
    labels = case["labels"]
    ordinary = [l for l in labels if l not in (FPL,)]
    pos = rng.sample(GRID, k_gt)
    gts, ests = [], []
    off = lambda lo, hi: rng.choice([-1, 1]) * core.dyadic(rng, lo, hi, 8)  # noqa: E731
    for i, (x, y) in enumerate(pos):
        if case["frame_id"] == "map":
            x, y = x + 0.125, y + 0.375  # keep away from area boundaries (float round trip)
        fpl = rng.random() < opts["p_fpl"]
        lab = FPL if fpl else rng.choice([l for l in ordinary if l != "unknown"] or ordinary)
        if opts.get("gt_unknown") and not fpl and rng.random() < 0.3 and "unknown" in labels:
            lab = "unknown"
        g = _gen_obj(rng, f"g{opts['gt_ids'][i]}", lab, x, y)
        gts.append(g)
        u = f"e{n}_{i}"
        r = rng.random()
        if fpl:
            if r < 0.5:
                ests.append(_gen_obj(rng, u, rng.choice(ordinary), x + off(0, 0.5), y + off(0, 0.5)))
            continue
        kinds = opts["kinds"]
        kind = rng.choices(list(kinds), weights=list(kinds.values()))[0]
        if kind == "tp":
            yaw = g["yaw"] + rng.choice([0, 0, 1, -1, 15, 16, 17, -16, 31, 32] if opts["flip"] else [0, 0, 1, -1, 31, 32, -32])
            e = _gen_obj(rng, u, lab, x + off(0, 0.5), y + off(0, 0.5), yaw=yaw, vel="rand" if g["v"] is None or rng.random() < 0.3 else [g["v"][0] + core.dyadic(rng, -1, 1, 4), g["v"][1]])
            e["w"], e["len"] = g["w"] + rng.choice([0.0, 0.25, -0.25]), g["len"] + rng.choice([0.0, 0.25, -0.25])
            if opts.get("est_unknown") and rng.random() < opts["est_unknown"]:
                e["l"] = "unknown"
            if opts.get("est_any") and rng.random() < opts["est_any"]:
                e["l"] = rng.choice(ordinary)
            ests.append(e)
        elif kind == "far":
            ests.append(_gen_obj(rng, u, lab, x + off(3, 4.5), y + off(3, 4.5)))
        elif kind == "wrong":
            others = [l for l in ordinary if l != lab and l != "unknown"]
            ests.append(_gen_obj(rng, u, rng.choice(others) if others else lab, x + off(0, 0.5), y + off(0, 0.5)))
        # "miss": no estimate
    for j in range(opts["n_free"]):
        x, y = rng.choice(GRID)
        ests.append(_gen_obj(rng, f"e{n}_x{j}", rng.choice(ordinary), x + 6.25 + j, y - 5.75))
    rng.shuffle(ests)
    fr = {"n": n, "t": 1000 * (n + 1), "gts": gts, "ests": ests}
    if case["frame_id"] == "map":
        fr["ego"] = [core.dyadic(rng, -2000, 2000, 4), core.dyadic(rng, -2000, 2000, 4), rng.randint(-15, 16)]
    return fr


def _gen_sels(rng, case, n_sel):
    labels = case["labels"]
    nsc = len(case["scenes"])
    fnums = sorted({fr["n"] for sc in case["scenes"] for fr in sc})
    uuids = sorted({o["u"] for sc in case["scenes"] for fr in sc for o in fr["gts"] + fr["ests"]})
    sels = [{"mode": "analyze"}]
    pool = [
        lambda: {"scene": rng.randrange(nsc + 1)},
        lambda: {"scene": rng.sample(range(nsc + 1), rng.randint(1, min(2, nsc + 1)))},
        lambda: {"area": rng.randrange(case["division"] + (1 if rng.random() < 0.1 else 0))},
        lambda: {"area": rng.sample(range(case["division"]), min(case["division"], 2))},
        lambda: {"label": rng.choice(labels + ["unknown"])},
        lambda: {"label": rng.sample(labels, min(2, len(labels)))},
        lambda: {"frame": rng.choice(fnums) if fnums else 0},
        lambda: {"status": rng.choice(["TP", "FP", "TN", "FN"])},
        lambda: {"status": rng.sample(["TP", "FP", "TN", "FN"], 2)},
        lambda: {"uuid": rng.choice(uuids) if uuids else "g0"},
        lambda: {"distance": sorted([float(rng.choice([0, 10, 25, 30, 40, 50, 65, 90])), float(rng.choice([5, 20, 37.5, 45, 60, 80, 120]))])},
        lambda: {"distance": [50.0, 10.0]},
        lambda: {"label": rng.choice(labels), "area": rng.randrange(case["division"])},
        lambda: {"scene": rng.randrange(nsc), "distance": [0.0, float(rng.choice([30, 50, 75]))]},
        lambda: {"label": rng.choice(labels), "status": ["TP", "FP"]},
    ]
    for k in range(n_sel):
        s = rng.choice(pool)()
        if s.get("distance") is not None and s["distance"][0] == s["distance"][1]:
            s["distance"][1] += 5.0
        s["mode"] = "analyze" if k == 0 else "parts"
        sels.append(s)
    return sels


def _gen_case(rng, flavour="plain"):
    case = {"kind": "scenes", "flavour": flavour}
    case["task"] = rng.choices(["detection", "tracking"], weights=[3, 1])[0]
    case["frame_id"] = rng.choice(["base_link", "map"])
    k = rng.randint(2, 4)
    case["labels"] = rng.sample(LABELS, k)
    case["policy"] = rng.choices(["default", "allow_unknown_flag", "allow_unknown"], weights=[5, 2, 1])[0]
    opts = {"p_fpl": rng.choice([0.0, 0.15, 0.3]), "kinds": {"tp": 5, "far": 1.5, "wrong": 1, "miss": 2}, "n_free": 0}
    if flavour == "no_f11":
        opts["kinds"] = {"tp": 6, "miss": 2}
    if flavour == "n1":
        case["policy"] = rng.choice(["allow_unknown_flag", "allow_any"])
        if case["policy"] == "allow_any":
            opts["est_any"] = 0.6
        else:
            case["labels"] = case["labels"][: k - 1] + ["unknown"]
            opts["est_unknown"] = 0.6
            opts["gt_unknown"] = True
        opts["kinds"] = {"tp": 6, "miss": 1}
        case["task"] = "detection"
    elif case["policy"] != "default":
        opts["est_unknown"] = 0.25  # unknown estimates, "unknown" not a target label: rates stay within [0,1]
    if flavour != "n1" and rng.random() < 0.2:
        # "false_positive" a target label: FP-labelled ground truths get a threshold, a matching estimate
        # inside it is an FP result that keeps its FP-labelled ground truth (status (FP, FP))
        case["labels"] = case["labels"] + [FPL]
        opts["p_fpl"] = 0.4
    if rng.random() < 0.8:
        mx, my = rng.choice([(96.0, 96.0), (96.0, 48.0), (120.0, 60.0), (75.0, 75.0)])
        case["range"] = {"kind": "xy", "max_x": mx, "max_y": my}
        cf = rng.choice([1.0, 1.0, 0.75, 0.5])
        case["crit"] = {"kind": "xy", "x": mx * cf, "y": my * cf}
    else:
        case["range"] = {"kind": "dist", "max": rng.choice([90.0, 110.0]), "min": rng.choice([0.0, 5.0])}
        case["crit"] = {"kind": "dist", "max": rng.choice([60.0, 90.0, 110.0]), "min": 0.0}
    case["radii"] = rng.choice([None, 5.0, 5.0]) if flavour != "no_f11" else 5.0
    case["thr"] = rng.choice([2.0, 3.0, 8.0])
    opts["flip"] = flavour == "plain" or case["thr"] == 8.0  # a yaw flip swaps the nearest-plane corners: plane distance ~ box size
    case["division"] = rng.choice([1, 3, 9])
    nsc = rng.randint(1, 3)
    scenes = []
    for _ in range(nsc):
        nfr = rng.randint(1, 5)
        n_ids = rng.randint(0, 6)
        start = rng.choice([0, 0, 3, 10])
        sc = []
        for j in range(nfr):
            k_gt = rng.randint(0, n_ids)
            opts["gt_ids"] = sorted(rng.sample(range(n_ids), k_gt))
            opts["n_free"] = rng.choice([0, 0, 1, 2]) if flavour != "no_f11" or case["radii"] else 0
            sc.append(_gen_frame(rng, case, start + j, k_gt, opts))
        scenes.append(sc)
    case["scenes"] = scenes
    case["sels"] = _gen_sels(rng, case, rng.randint(3, 6))
    return case


def _boundary_case(rng):
    """BASE_LINK objects exactly on area boundaries / on a distance bound (exact in floats)"""
    case = _gen_case(rng, "plain")
    case["frame_id"] = "base_link"
    case["range"] = {"kind": "xy", "max_x": 96.0, "max_y": 48.0}
    case["crit"] = {"kind": "xy", "x": 96.0, "y": 48.0}
    case["division"] = rng.choice([3, 9])
    for sc in case["scenes"]:
        for fr in sc:
            fr.pop("ego", None)
            for o in fr["gts"] + fr["ests"]:
                if rng.random() < 0.4:
                    o["x"] = rng.choice([32.0, -32.0, 30.0, 40.0, 0.0])
                if rng.random() < 0.3:
                    o["y"] = rng.choice([16.0, -16.0, 0.0, 30.0])
    case["sels"] = _gen_sels(rng, case, 3) + [{"distance": [30.0, 50.0], "mode": "parts"}, {"area": 1, "mode": "parts"}]
    return case


def _empty_case(rng, with_frames):
    case = _gen_case(rng, "no_f11")
    case["flavour"] = "empty"
    case["scenes"] = [[{"n": 0, "t": 1000, "gts": [], "ests": []}]] if with_frames else [[]]
    if case["frame_id"] == "map":
        for sc in case["scenes"]:
            for fr in sc:
                fr["ego"] = [10.0, 20.0, 3]
    case["sels"] = [{"mode": "analyze"}]
    return case


def table_witness_cases():
    """concrete inputs realising the valuations on which the code's decision tables (harness/dt_c19.py) and the model's skeletons
    differ; empty on an unchanged source. Never raises."""
    try:
        from .. import dt_c19

        return dt_c19.witness_cases()
    except Exception:  # noqa: BLE001 - the witness step must never break the check
        return []


def extra_evidence():
    from .. import dt_c19

    return {"tables": dt_c19.evidence()}


_STATE = {}


def _table_branches():
    """once per run: how the tables of the real code came out (`table:untranslatable` = the translator fell back)"""
    if _STATE.get("table_branches_done"):
        return []
    _STATE["table_branches_done"] = True
    try:
        from .. import dt_c19

        ev = dt_c19.evidence()
        b = [f"table:untranslatable:{k}" for k in ev["decision_tables_untranslatable"]]
        if b:
            b.append("table:untranslatable")
        return b + [f"table:{k}:paths={v['paths']}" for k, v in ev["decision_tables"].items()]
    except Exception:  # noqa: BLE001
        return ["table:untranslatable"]


def generate(rng, tier):
    n = 69 if tier == "quick" else 460
    cases = table_witness_cases()
    for i in range(n):
        r = i % 23
        if r % 2 == 1 and r not in (7, 13, 17):
            cases.append(_gen_case(rng, "no_f11"))
        elif r == 7:
            cases.append(_boundary_case(rng))
        elif r == 13:
            cases.append(_gen_case(rng, "n1"))
        elif r == 17 and (i // 23) % 3 == 0:
            cases.append(_empty_case(rng, rng.random() < 0.5))
        else:
            cases.append(_gen_case(rng, "plain"))
    return cases


def corpus():
    cs = []
    if CORPUS_DIR.exists():
        for p in sorted(CORPUS_DIR.glob("*.json")):
            cs.append(json.loads(p.read_text())["case"])
    return cs


def branches(case, out):
    if case.get("kind") in ("area", "rows"):
        return [f"kind:{case['kind']}", "table:witness"] + _table_branches() + (["impl-error:" + str(out.get("err"))] if "err" in out else [])
    b = _table_branches() + [f"frame:{case['frame_id']}", f"task:{case['task']}", f"division:{case['division']}", f"policy:{case['policy']}",
         f"range:{case['range']['kind']}", f"radii:{case.get('radii')}", f"scenes:{len(case['scenes'])}",
         f"frames:{sum(len(s) for s in case['scenes'])}", f"flavour:{case.get('flavour')}"]
    if "frames" not in out or "err" in out or isinstance(out.get("rows"), dict):
        return b + ["impl-error:" + str(out.get("err")), "trivial"]
    ls = [l for sc in out["frames"] for l in sc]
    nrows = len(out["rows"])
    if nrows == 0:
        b.append("trivial")
    b.append("rows:" + ("0" if nrows == 0 else "1-9" if nrows < 10 else "10-29" if nrows < 30 else "30+"))
    f11 = 0
    for sc_case, sc_out in zip(case["scenes"], out["frames"]):
        for fr, l in zip(sc_case, sc_out):
            objs = _objs_of(fr)
            if l["tp"]:
                b.append("has:TP")
            else:
                b.append("frame-without-TP")
            for e, g in l["fp"]:
                if g is None:
                    b.append("has:FP-without-GT")
                elif objs[g]["l"] == FPL:
                    b.append("has:FP-with-FP-labelled-GT")
                else:
                    b.append("has:FP-with-ordinary-GT(F11)")
                    f11 += 1
            if l["tn"]:
                b.append("has:TN")
            if l["fn"]:
                b.append("has:FN")
            if len(l["critical"]) < len(fr["gts"]):
                b.append("critical-filter-drops-GT")
            if any(objs[e]["l"] != objs[g]["l"] for e, g in l["tp"]):
                b.append("has:TP-with-different-labels")
            if any(o["v"] is None for o in fr["gts"] + fr["ests"]):
                b.append("has:velocity-None")
    b = sorted(set(b))
    b.append("f11-frames:" + ("0" if f11 == 0 else "1+"))
    if _yaw_pi_pairs(case, out):
        b.append("yaw-diff-exactly-pi")
    for row in out["rows"]:
        for c in (row[2], row[5]):
            if c is not None and c["area"] is None:
                b.append("area:None")
                break
    for sel, a in zip(case["sels"], out["analyses"]):
        keys = "+".join(sorted(k for k in _sel_kwargs(sel))) or "all"
        res = "err:" + a["err"] if "err" in a else "none" if a.get("none") else "ok"
        b.append(f"sel:{keys}:{res}")
        if "ratio" in a:
            b.append("cm:" + ("none" if a["cm"] is None else "some"))
            if any(v is None for v in a["error"]["ALL"].values()):
                b.append("error-summary:NaN")
            for l, vals in a["ratio"].items():
                if any(v > 1.0 for v in vals):
                    b.append("rate>1(N1)")
    for k, v in out["num"].items():
        if isinstance(v, dict):
            b.append("num-raises:" + v["err"])
            break
    return sorted(set(b))


def shrink(case):
    """drop scenes, frames, objects, selections"""
    import copy

    if case.get("kind") in ("area", "rows"):
        return
    if len(case["scenes"]) > 1:
        for i in range(len(case["scenes"])):
            c = copy.deepcopy(case)
            del c["scenes"][i]
            c["sels"] = [s for s in c["sels"] if "scene" not in s]
            yield c
    for i, sc in enumerate(case["scenes"]):
        if len(sc) > 1:
            for j in range(len(sc)):
                c = copy.deepcopy(case)
                del c["scenes"][i][j]
                yield c
    if len(case["sels"]) > 1:
        for i in range(len(case["sels"])):
            c = copy.deepcopy(case)
            del c["sels"][i]
            yield c
    for i, sc in enumerate(case["scenes"]):
        for j, fr in enumerate(sc):
            for key in ("gts", "ests"):
                for k in range(len(fr[key])):
                    c = copy.deepcopy(case)
                    del c["scenes"][i][j][key][k]
                    yield c


def area_probe_cases():
    """the area kernel on a lattice of positions for 1 / 3 / 9 divisions (used by the failing-input search only)"""
    try:
        from .. import dt_c19

        return [c for _nm, _k1, k2 in dt_c19.AREA_SHAPES for c in dt_c19.probe_cases(k2)]
    except Exception:  # noqa: BLE001
        return []


def search(rng, st, disagreements):
    return table_witness_cases() + area_probe_cases() + [_gen_case(rng, rng.choice(["plain", "plain", "no_f11", "n1"])) for _ in range(60)] + [_boundary_case(rng) for _ in range(10)]
