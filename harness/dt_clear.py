"""Decision tables of the CLEAR kernels (property C05), extracted from the REAL code of the working tree.

Tabulated (all in perception_eval/evaluation/metrics/tracking/clear.py):
  (a) CLEAR._is_id_switched(cur, prev), CLEAR._is_same_match(cur, prev)            -> Bool
  (b) CLEAR._calculate_tp_fp(cur_list, prev_list) for (|cur|, |prev|) in SIZES      -> (tp terms, fp, switches, score terms)
  (c) CLEAR._calculate_score()                                                      -> (MOTA formula, MOTP formula)
  (d) CLEAR.__init__ over histories of <= 3 frames, each frame empty or not         -> which (prev, cur) frame pairs are counted

Stubs expose only the atoms (see `Atom` in lean/PEval/Model/ClearDT.lean):
  hasGt(r)                r.ground_truth_object is not None
  inTargets(cj, side)     cj's ground-truth / estimate label is in target_labels (asked by the real get_label_threshold)
  isTp(r | thr[cj.side])  r.is_result_correct(mode, threshold of cj's gt/est label)   (is_result_correct itself is NOT executed:
                          it lives in object_result.py and is the subject of the correspondence run)
  sameEstId(j,i) sameEstLabel(j,i) sameGtId(j,i)     `==` of the uuids / semantic labels of current j and previous i
  ord(x,y)                three-valued order of two numeric terms
`==` of the stubs returns real Python bools (the code multiplies them: bool*bool is an int, `bool()` / `not` of it is
exact); a returned truth value is recorded by its truthiness (callers only branch on it).
The results' weights `tp_metrics.get_value(r)` and scores `r.get_matching(mode).value` are the symbolic terms w(r), value(r).
"""
from __future__ import annotations

import inspect
import time
from fractions import Fraction
from typing import Any, Dict, List, Optional, Tuple

from . import dtsym
from .dtsym import BOOL, Engine, Leak, Sym, Untranslatable, engine

SIZES = [(0, 1), (1, 0), (1, 1), (1, 2), (2, 0), (2, 1)]
INIT_MAX = 3

MODE = type("SymMatchingMode", (), {"__repr__": lambda s: "<mode>"})()


class _Stub:
    def __init_subclass__(cls, **kw):
        super().__init_subclass__(**kw)
        dtsym.STUB_TYPE_NAMES.add(cls.__name__)
        if "__eq__" in cls.__dict__ and cls.__dict__.get("__hash__") is None:
            cls.__hash__ = _Stub.__hash__  # defining __eq__ would silently make the class unhashable with a plain TypeError

    def __getattr__(self, name):
        if name.startswith("__") and name.endswith("__"):
            raise AttributeError(name)
        raise engine().leaked(f"{type(self).__name__}.{name} is outside the abstraction")

    def __hash__(self):
        raise engine().leaked(f"hash of {type(self).__name__}")

    def __bool__(self):
        raise engine().leaked(f"truth value of {type(self).__name__}")

    def __iter__(self):
        raise engine().leaked(f"iteration over {type(self).__name__}")


class SId(_Stub):
    def __init__(self, ref, side):
        self.__dict__.update(ref=ref, side=side)

    def __eq__(self, other):
        if other is self:
            return True
        if not isinstance(other, SId) or other.side != self.side or other.ref[0] == self.ref[0]:
            raise engine().leaked(f"uuid of {self.ref}.{self.side} compared with {other!r}")
        c, p = (self, other) if self.ref[0] == "c" else (other, self)
        return engine().ask(("sameEstId" if self.side == "est" else "sameGtId", int(c.ref[1:]), int(p.ref[1:])), BOOL)

    def __ne__(self, other):
        return not self.__eq__(other)

    def __repr__(self):
        return f"<uuid {self.ref}.{self.side}>"


class SKey(_Stub):
    """`semantic_label.label` (what get_label_threshold looks up)"""

    def __init__(self, ref, side):
        self.__dict__.update(ref=ref, side=side)

    def __eq__(self, other):
        raise engine().leaked(f"label key of {self.ref}.{self.side} compared with {other!r}")

    def __repr__(self):
        return f"<label {self.ref}.{self.side}>"


class SLabel(_Stub):
    def __init__(self, ref, side):
        self.__dict__.update(ref=ref, side=side, label=SKey(ref, side))

    def __eq__(self, other):
        if other is self:
            return True
        if not isinstance(other, SLabel) or other.side != "est" or self.side != "est" or other.ref[0] == self.ref[0]:
            raise engine().leaked(f"semantic label of {self.ref}.{self.side} compared with {other!r}")
        c, p = (self, other) if self.ref[0] == "c" else (other, self)
        return engine().ask(("sameEstLabel", int(c.ref[1:]), int(p.ref[1:])), BOOL)

    def __ne__(self, other):
        return not self.__eq__(other)


class SObj(_Stub):
    def __init__(self, ref, side):
        self.__dict__.update(uuid=SId(ref, side), semantic_label=SLabel(ref, side))


class SIndex(_Stub):
    def __init__(self, key):
        self.__dict__.update(key=key)


class STargets(_Stub):
    """target_labels"""

    def __contains__(self, key):
        if not isinstance(key, SKey) or key.ref[0] != "c":
            raise engine().leaked(f"`{key!r} in target_labels`")
        return engine().ask(("inTargets", int(key.ref[1:]), key.side), BOOL)

    def index(self, key, *a):
        if not isinstance(key, SKey) or a or not self.__contains__(key):
            raise engine().leaked(f"target_labels.index({key!r})")
        return SIndex(key)

    def __len__(self):
        raise engine().leaked("len(target_labels)")


class SThr(_Stub):
    """threshold of a current result's key label (never None)"""

    def __init__(self, key):
        self.__dict__.update(key=key)

    def term(self):
        return ("thr", int(self.key.ref[1:]), self.key.side)


class SThrList(_Stub):
    def __getitem__(self, i):
        if not isinstance(i, SIndex):
            raise engine().leaked(f"matching_threshold_list[{i!r}]")
        return SThr(i.key)

    def __len__(self):
        raise engine().leaked("len(matching_threshold_list)")


class SMatching(_Stub):
    def __init__(self, ref):
        self.__dict__.update(value=Sym.atom(f"value({ref})"))


class SRes(_Stub):
    """one DynamicObjectWithPerceptionResult"""

    def __init__(self, ref):
        self.__dict__.update(ref=ref, estimated_object=SObj(ref, "est"), _gt=SObj(ref, "gt"))

    @property
    def ground_truth_object(self):
        return self._gt if engine().ask(("hasGt", self.ref), BOOL) else None

    def is_result_correct(self, matching_mode=None, matching_threshold=None, **kw):
        if kw or matching_mode is not MODE:
            raise engine().leaked(f"is_result_correct({matching_mode!r}, ..)")
        if matching_threshold is None:
            return engine().ask(("isTp", self.ref, "None"), BOOL)
        if not isinstance(matching_threshold, SThr):
            raise engine().leaked(f"is_result_correct(.., {matching_threshold!r})")
        return engine().ask(("isTp", self.ref, matching_threshold.term()), BOOL)

    def get_matching(self, matching_mode=None, **kw):
        if kw or matching_mode is not MODE:
            raise engine().leaked(f"get_matching({matching_mode!r})")
        return SMatching(self.ref)

    def __repr__(self):
        return f"<result {self.ref}>"


class STpMetrics(_Stub):
    def get_value(self, object_result=None, **kw):
        if kw or not isinstance(object_result, SRes):
            raise engine().leaked(f"tp_metrics.get_value({object_result!r})")
        return Sym.atom(f"w({object_result.ref})")


# ----------------------------------------------------------------------------- the real class on stubs

def _clear_cls():
    from perception_eval.evaluation.metrics.tracking.clear import CLEAR

    return CLEAR


def _instance(num_gt=1):
    """a real CLEAR instance over stub configuration: the real constructor on an empty history (atoms asked while it runs
    are answered freely and not recorded); the private attributes of the base class only as a fallback"""
    CLEAR = _clear_cls()
    eng = engine()
    eng.free = True
    try:
        try:
            obj = CLEAR([], num_gt, STargets(), MODE, SThrList(), STpMetrics())
        except Exception:  # noqa: BLE001
            obj = object.__new__(CLEAR)
            obj._num_ground_truth = num_gt
            obj._target_labels = STargets()
            obj._matching_mode = MODE
            obj._matching_threshold_list = SThrList()
            obj._tp_metrics = STpMetrics()
        eng.leak = None
    finally:
        eng.free = False
    return obj


def _truth(x, known) -> bool:
    if isinstance(x, (bool, int)):
        return bool(x)
    raise Leak(f"truth value {x!r} is not a bool")


def table_pair_pred(name: str):
    CLEAR = _clear_cls()
    fn = getattr(CLEAR, name)
    eng = Engine()
    return eng.explore(lambda: fn(SRes("c0"), SRes("p0")), _truth)


def _canon_step(r, known):
    if not isinstance(r, tuple) or len(r) != 4:
        raise Leak(f"_calculate_tp_fp returned {r!r}")

    def ms(x):
        if isinstance(x, Sym):
            m = x.multiset()
            if m is None:
                return ["?" + x.name()]
            return m
        f = Fraction(x)
        return [] if f == 0 else [dtsym._cname(f)]

    return (tuple(ms(r[0])), tuple(ms(r[1])), tuple(ms(r[2])), tuple(ms(r[3])))


def table_step(nc: int, np_: int):
    CLEAR = _clear_cls()
    sig = inspect.signature(CLEAR._calculate_tp_fp)
    names = [p for p in sig.parameters if p != "self"]
    if sorted(names) != ["cur_object_results", "prev_object_results"]:
        raise Untranslatable(f"_calculate_tp_fp{sig} has other parameters")
    eng = Engine()

    def thunk():
        obj = _instance()
        cur = [SRes(f"c{j}") for j in range(nc)]
        prev = [SRes(f"p{i}") for i in range(np_)]
        return obj._calculate_tp_fp(cur_object_results=cur, prev_object_results=prev)

    return eng.explore(thunk, _canon_step)


def table_score():
    eng = Engine()

    def thunk():
        obj = _instance(Sym.atom("num_gt"))
        if not isinstance(getattr(obj, "num_ground_truth", None), Sym):
            raise Leak("num_ground_truth does not come from the constructor argument")
        obj.tp = Sym.atom("tp")
        obj.fp = Sym.atom("fp")
        obj.id_switch = Sym.atom("id_switch")
        obj.tp_matching_score = Sym.atom("tp_matching_score")
        return obj._calculate_score()

    def canon(r, known):
        if not isinstance(r, tuple) or len(r) != 2:
            raise Leak(f"_calculate_score returned {r!r}")
        return (dtsym.canon_num(r[0], known), dtsym.canon_num(r[1], known))

    return eng.explore(thunk, canon)


def table_init(n: int):
    """CLEAR.__init__ on a history of n frames; atom empty(i) = frame i has no result.  _calculate_tp_fp / _calculate_score
    are replaced by recorders in a probe subclass, so the outcome is the list of (previous, current) frame pairs handed to
    _calculate_tp_fp, in call order, and predict_num as the list of frames whose length was added"""
    CLEAR = _clear_cls()
    calls: List[Tuple[int, int]] = []
    frames: List[list] = []

    def idx(fr):
        for k, f in enumerate(frames):
            if f is fr:
                return k
        return -1  # a list the constructor built itself

    class Probe(CLEAR):
        def _calculate_tp_fp(self, *a, **k):
            b = inspect.signature(CLEAR._calculate_tp_fp).bind(self, *a, **k)
            calls.append((idx(b.arguments["prev_object_results"]), idx(b.arguments["cur_object_results"])))
            return 0.0, 0.0, 0, 0.0

        def _calculate_score(self):
            return 0.0, 0.0

    eng = Engine()

    def thunk():
        calls.clear()
        frames.clear()
        for i in range(n):
            frames.append([] if engine().ask(("empty", i), BOOL) else [SRes(f"f{i}")])
        obj = Probe(frames, 1, STargets(), MODE, SThrList(), STpMetrics())
        return (tuple(calls), int(obj.objects_results_num))

    # every frame's emptiness is decided up front (complete tree over empty(0..n-1), fixed order)
    def canon(r, known):
        # a call whose current frame is empty books nothing (stepTree_0_1): not part of the outcome
        return (tuple(c for c in r[0] if not (c[1] >= 0 and known.get(("empty", c[1])) is True)), r[1])

    return eng.explore(thunk, canon)


# ----------------------------------------------------------------------------- Lean emission

def _ref(r: str) -> str:
    return f"(.cur {int(r[1:])})" if r[0] == "c" else f"(.prev {int(r[1:])})"


def lean_atom(a) -> str:
    k = a[0]
    if k == "hasGt" and a[1][0] in "cp":
        return f"(.hasGt {_ref(a[1])})"
    if k == "inTargets":
        return f"(.inTargets {a[1]} {'true' if a[2] == 'gt' else 'false'})"
    if k == "isTp" and isinstance(a[2], tuple) and a[1][0] in "cp":
        return f"(.isTp {_ref(a[1])} {a[2][1]} {'true' if a[2][2] == 'gt' else 'false'})"
    if k in ("sameEstId", "sameEstLabel", "sameGtId"):
        return f"(.{k} {a[1]} {a[2]})"
    if k == "ord":
        return f"(.ord {_lstr(a[1])} {_lstr(a[2])})"
    if k == "empty":
        return f"(.empty {a[1]})"
    return f"(.other {_lstr(repr(a))})"


def _lstr(s: str) -> str:
    from .gen_tables import lstr

    return lstr(s)


def _term(t: str) -> str:
    import re

    m = re.fullmatch(r"(w|value)\(([cp])(\d+)\)", t)
    if m:
        return f".{'w' if m.group(1) == 'w' else 'value'} (.{'cur' if m.group(2) == 'c' else 'prev'} {m.group(3)})"
    if re.fullmatch(r"-?\d+", t):
        return f".int ({t})" if t.startswith("-") else f".int {t}"
    return f".other {_lstr(t)}"


def term_key(t: str):
    """the canonical order of the terms of a sum (same as `Term.key` in ClearDT.lean): weights/values by result
    (current j -> 2j, previous i -> 2i+1), then integers, then anything else by name"""
    import re

    m = re.fullmatch(r"(w|value)\(([cp])(\d+)\)", t)
    if m:
        return (0, 2 * int(m.group(3)) + (1 if m.group(2) == "p" else 0), "")
    if re.fullmatch(r"-?\d+", t):
        return (1, 0, "")
    return (2, 0, t)


def _leaf_bool(res) -> str:
    return f".ok {'true' if res[1] else 'false'}" if res[0] == "ok" else f".error {_lstr(res[1])}"


def _leaf_step(res) -> str:
    if res[0] != "ok":
        return f".error {_lstr(res[1])}"
    parts = []
    for comp in res[1]:
        ts = sorted(comp, key=term_key)
        parts.append("[" + ", ".join(_term(t) for t in ts) + "]")
    return ".ok ⟨" + ", ".join(parts) + "⟩"


def _leaf_score(res) -> str:
    if res[0] != "ok":
        return f".error {_lstr(res[1])}"
    return f".ok ({_lstr(res[1][0])}, {_lstr(res[1][1])})"


def _leaf_init(res) -> str:
    if res[0] != "ok":
        return f".error {_lstr(res[1])}"
    calls, n = res[1]
    return ".ok ([" + ", ".join(f"({'none' if a < 0 else 'some ' + str(a)}, {'none' if b < 0 else 'some ' + str(b)})"
                               for a, b in calls) + f"], {n})"


def lean_tree(tree, leaf, ind=1) -> str:
    pad = "  " * ind
    if tree[0] == "leaf":
        return f"{pad}(.leaf ({leaf(tree[1])}))"
    atom, kids = tree[1], dict(tree[2])
    if atom[0] == "ord":
        dom = dtsym.ORD
        head = f"{pad}(.cmp {lean_atom(atom)}"
    else:
        dom = BOOL
        head = f"{pad}(.ite {lean_atom(atom)}"
    subs = []
    for o in dom:
        if o not in kids:
            raise Untranslatable(f"outcome {o} of {atom} was not explored")
        subs.append(lean_tree(kids[o], leaf, ind + 1))
    return head + "\n" + "\n".join(subs) + ")"


HEADER = ("-- GENERATED by harness/dt_clear.py (called from harness/gen_tables.py): decision tables of the CLEAR kernels, extracted\n"
          "-- from /repo's current source by exhaustive symbolic execution over its decision atoms. Do not edit.\n")

TABLES: Dict[str, Any] = {}     # name -> tree | None (this process's latest generation; read by harness/props/c05.py)
NOTES: Dict[str, str] = {}      # name -> "paths=.." | "untranslatable: .."
SECONDS: List[float] = []


def _defs() -> List[Tuple[str, str, Any, Any]]:
    d = [("isIdSwitchedTree", "DTree (Except String Bool)", lambda: table_pair_pred("_is_id_switched"), _leaf_bool),
         ("isSameMatchTree", "DTree (Except String Bool)", lambda: table_pair_pred("_is_same_match"), _leaf_bool)]
    for nc, np_ in SIZES:
        d.append((f"stepTree_{nc}_{np_}", "DTree (Except String SOut)", (lambda a=nc, b=np_: table_step(a, b)), _leaf_step))
    d.append(("scoreTree", "DTree (Except String (String × String))", table_score, _leaf_score))
    for n in range(INIT_MAX + 1):
        d.append((f"initTree_{n}", "DTree (Except String (List (Option Nat × Option Nat) × Nat))", (lambda a=n: table_init(a)), _leaf_init))
    return d


def gen_clear_dt() -> str:
    t0 = time.time()
    TABLES.clear()
    NOTES.clear()
    txt = HEADER + "import PEval.Model.ClearDT\nnamespace PEval.Gen.ClearDT\nopen PEval.ClearDT\n\n"
    for name, ty, fn, leaf in _defs():
        try:
            paths = fn()
            tree = dtsym.build_tree(paths)
            body = lean_tree(tree, leaf)
            TABLES[name] = tree
            NOTES[name] = f"paths={len(paths)}"
            txt += f"/-- {len(paths)} paths -/\ndef {name} : Option ({ty}) := some\n{body}\n\n"
        except Exception as e:  # noqa: BLE001 - anything the abstraction cannot express: marker, never an alarm
            why = f"{type(e).__name__}: {e}" if not isinstance(e, Untranslatable) else str(e)
            TABLES[name] = None
            NOTES[name] = "untranslatable: " + why[:200]
            txt += f"/-- untranslatable: {why[:200].replace('-/', '- /')} -/\ndef {name} : Option ({ty}) := none\n\n"
    txt += "end PEval.Gen.ClearDT\n"
    SECONDS.append(time.time() - t0)
    return txt


def gen_clear_dt_fallback(err: BaseException) -> str:
    """the generator itself failed: every table is marked untranslatable (the Lean build still succeeds)"""
    TABLES.clear()
    NOTES.clear()
    txt = HEADER + "import PEval.Model.ClearDT\nnamespace PEval.Gen.ClearDT\nopen PEval.ClearDT\n\n"
    why = f"{type(err).__name__}: {err}"[:200].replace("-/", "- /")
    for name, ty, _, _ in _defs():
        TABLES[name] = None
        NOTES[name] = "untranslatable: generator failed: " + why
        txt += f"/-- untranslatable: generator failed: {why} -/\ndef {name} : Option ({ty}) := none\n\n"
    return txt + "end PEval.Gen.ClearDT\n"


if __name__ == "__main__":
    import sys

    t = gen_clear_dt()
    print(NOTES, SECONDS, file=sys.stderr)
    print(t)


# ============================================================================= witnesses: table != skeleton -> concrete input
#
# When a regenerated table stops agreeing with the model's skeleton (the Lean obligation `…_code_table_eq_model` fails), the
# functions below find the consistent (partial) valuations on which they differ (the same walk as `agree` in ClearDT.lean,
# against a Python transcription of the skeletons) and turn each into a REAL input realising it: a `clear` case of
# harness/props/c05.py (a two-frame history of real result objects, labels / thresholds / distances / uuids chosen so that
# every decided atom has the decided outcome; the realisation is verified by recomputing the valuation from the case).

class _Need(Exception):
    def __init__(self, atom, dom):
        self.atom, self.dom = atom, dom


def _conflictF(a, b, g):
    return (a and b) != g


def _sameF(a, b, g):
    return a and b and g


def _sk_pair(f, j, i, ask):
    if not ask(("hasGt", f"c{j}"), BOOL):
        return False
    if not ask(("hasGt", f"p{i}"), BOOL):
        return False
    a = ask(("sameEstId", j, i), BOOL)
    b = ask(("sameEstLabel", j, i), BOOL)
    g = ask(("sameGtId", j, i), BOOL)
    return bool(f(a, b, g))


def _norm_step(r):
    return tuple(tuple(sorted(c, key=term_key)) for c in r)


def _sk_step(nc, np_, ask):
    tp, score, fp, sw = [], [], 0, 0
    for j in range(nc):
        side = "gt" if ask(("hasGt", f"c{j}"), BOOL) else "est"
        if not ask(("inTargets", j, side), BOOL):
            continue
        thr = ("thr", j, side)
        found = None
        for i in range(np_):
            if not ask(("isTp", f"p{i}", thr), BOOL):
                continue
            if _sk_pair(_conflictF, j, i, ask):
                found = "switched"
                break
            if _sk_pair(_sameF, j, i, ask):
                found = i
                break
        if isinstance(found, int):
            tp.append(f"w(p{found})")
            score.append(f"value(p{found})")
            continue
        if ask(("isTp", f"c{j}", thr), BOOL):
            tp.append(f"w(c{j})")
            score.append(f"value(c{j})")
            if found == "switched":
                sw += 1
        else:
            fp += 1
    return _norm_step((tp, [str(fp)] if fp else [], [str(sw)] if sw else [], score))


def _sk_score(ask):
    mota = "inf" if ask(("ord", "num_gt", "0"), dtsym.ORD) == "eq" else None
    motp = "inf" if ask(("ord", "tp", "0"), dtsym.ORD) == "eq" else "tp_matching_score/tp"
    if mota is None:
        mota = "(tp-fp-id_switch)/num_gt" if ask(("ord", "(tp-fp-id_switch)/num_gt", "0"), dtsym.ORD) == "gt" else "0"
    return (mota, motp)


def _sk_init(n, ask):
    ne = [i for i in range(1, n) if not ask(("empty", i), BOOL)]
    return (tuple((i - 1, i) for i in ne), len(ne))


def _skeletons():
    sk = {"isIdSwitchedTree": (lambda ask: _sk_pair(_conflictF, 0, 0, ask), lambda r: r),
          "isSameMatchTree": (lambda ask: _sk_pair(_sameF, 0, 0, ask), lambda r: r),
          "scoreTree": (_sk_score, lambda r: r)}
    for nc, np_ in SIZES:
        sk[f"stepTree_{nc}_{np_}"] = ((lambda ask, a=nc, b=np_: _sk_step(a, b, ask)), _norm_step)
    for n in range(INIT_MAX + 1):
        sk[f"initTree_{n}"] = ((lambda ask, a=n: _sk_init(a, ask)), lambda r: r)
    return sk


def consistent(pi: Dict[Any, Any]) -> bool:
    for a, o in pi.items():
        if a[0] == "isTp" and o is True and pi.get(("hasGt", a[1])) is False:
            return False
        if a == ("ord", "num_gt", "0") and o == "lt":
            return False  # a number of ground truths
    return True


def disagreements(name: str, limit: int = 200) -> List[dict]:
    """consistent partial valuations on which the generated table `name` and the skeleton differ"""
    tree = TABLES.get(name)
    if tree is None:
        return []
    sk, norm = _skeletons()[name]
    out = []
    for dec, res in dtsym.tree_paths(tree):
        pi0 = dict(dec)
        if not consistent(pi0):
            continue
        got = ("ok", norm(res[1])) if res[0] == "ok" else res
        stack = [pi0]
        while stack:
            pi = stack.pop()

            def ask(a, dom, pi=pi):
                if a in pi:
                    return pi[a]
                raise _Need(a, dom)

            try:
                want = ("ok", sk(ask))
            except _Need as n:
                for o in n.dom:
                    stack.append({**pi, n.atom: o})
                continue
            if not consistent(pi):
                continue
            if want != got:
                out.append({"table": name, "valuation": pi, "code": got, "model": want})
                if len(out) >= limit:
                    return out
    return out


# ---- valuation -> concrete `clear` case of harness/props/c05.py

LCAR, LBIC, LPED, LMOT, LFP, LUNK = range(6)
_TARGETS, _THRS = [LCAR, LBIC], [1.0, 2.0]


class _UF:
    def __init__(self):
        self.p = {}

    def find(self, x):
        self.p.setdefault(x, x)
        while self.p[x] != x:
            self.p[x] = self.p[self.p[x]]
            x = self.p[x]
        return x

    def union(self, a, b):
        self.p[self.find(a)] = self.find(b)


def _case_valuation(nc, np_, prev, cur):
    """atom -> outcome of a concrete two-frame history (specs [e, el, g, gl, d, yaw]), policy ALLOW_ANY, distance mode"""
    res = {f"c{j}": cur[j] for j in range(nc)}
    res.update({f"p{i}": prev[i] for i in range(np_)})
    thr = dict(zip(_TARGETS, _THRS))

    def val(a):
        k = a[0]
        if k == "hasGt":
            return res[a[1]][2] is not None
        if k == "inTargets":
            s = cur[a[1]]
            if a[2] == "gt" and s[2] is None:
                return None
            return (s[3] if a[2] == "gt" else s[1]) in thr
        if k == "isTp":
            r = res[a[1]]
            if a[2] == "None":
                return None
            s = cur[a[2][1]]
            if a[2][2] == "gt" and s[2] is None:
                return None
            t = thr.get(s[3] if a[2][2] == "gt" else s[1])
            if t is None:
                return None
            if r[2] is None:
                return False
            better = r[4] < t
            return (not better) if r[3] == LFP else better
        if k in ("sameEstId", "sameEstLabel", "sameGtId"):
            c, p = cur[a[1]], prev[a[2]]
            if k == "sameEstId":
                return c[0] == p[0]
            if k == "sameEstLabel":
                return c[1] == p[1]
            if c[2] is None or p[2] is None:
                return None
            return c[2] == p[2]
        return None

    return val


def realise_step(nc: int, np_: int, pi: Dict[Any, Any]) -> Optional[dict]:
    refs = [f"c{j}" for j in range(nc)] + [f"p{i}" for i in range(np_)]
    has = {r: pi.get(("hasGt", r), True) for r in refs}
    key, thr_of = {}, {}
    for j in range(nc):
        side = "gt" if has[f"c{j}"] else "est"
        in_t = pi.get(("inTargets", j, side), True)
        key[j] = (_TARGETS[j % 2] if in_t else [LPED, LMOT][j % 2])
        thr_of[j] = (side, dict(zip(_TARGETS, _THRS)).get(key[j]))
    # estimate labels
    uf = _UF()
    for j in range(nc):
        for i in range(np_):
            if pi.get(("sameEstLabel", j, i)) is True:
                uf.union(("c", j), ("p", i))
    fixed = {}
    for j in range(nc):
        if not has[f"c{j}"]:
            root = uf.find(("c", j))
            if fixed.setdefault(root, key[j]) != key[j]:
                return None
    pool = [l for l in (LCAR, LBIC, LPED, LMOT, LUNK) if l not in fixed.values()]
    el = {}
    for node in [("c", j) for j in range(nc)] + [("p", i) for i in range(np_)]:
        root = uf.find(node)
        if root not in fixed:
            if not pool:
                return None
            fixed[root] = pool.pop()
        el[node] = fixed[root]
    # uuids
    ids = {}
    for kind in ("sameEstId", "sameGtId"):
        u = _UF()
        for j in range(nc):
            for i in range(np_):
                if pi.get((kind, j, i)) is True:
                    u.union(("c", j), ("p", i))
        names: Dict[Any, int] = {}
        for node in [("c", j) for j in range(nc)] + [("p", i) for i in range(np_)]:
            ids[(kind, node)] = names.setdefault(u.find(node), len(names) + 1)
    # distances / ground-truth labels
    specs = {}
    for r in refs:
        node = (r[0], int(r[1:]))
        e = ids[("sameEstId", node)]
        if not has[r]:
            specs[r] = [e, el[node], None, LCAR, 0.0, 0.0]
            continue
        g = ids[("sameGtId", node)]
        gls = [key[node[1]]] if r[0] == "c" else [LCAR, LFP]
        want = []
        for j in range(nc):
            side, t = thr_of[j]
            if t is not None and ("isTp", r, ("thr", j, side)) in pi:
                want.append((t, pi[("isTp", r, ("thr", j, side))]))
        pick = None
        for gl in gls:
            for d in (0.5, 1.5, 2.5):
                if all((((not d < t) if gl == LFP else d < t) == w) for t, w in want):
                    pick = (gl, d)
                    break
            if pick:
                break
        if pick is None:
            return None
        specs[r] = [e, el[node], g, pick[0], pick[1], 0.0]
    prev = [specs[f"p{i}"] for i in range(np_)]
    cur = [specs[f"c{j}"] for j in range(nc)]
    val = _case_valuation(nc, np_, prev, cur)
    for a, o in pi.items():
        got = val(a)
        if got is not None and got != o:
            return None
        if got is None and a[0] in ("hasGt", "sameEstId", "sameEstLabel"):
            return None
    g = sum(1 for s in cur if s[2] is not None)
    return {"kind": "clear", "mode": "center", "targets": list(_TARGETS), "thrs": list(_THRS), "g": g, "tpm": "ap",
            "policy": "ALLOW_ANY", "hist": [prev, cur], "ren": 7}


def realise(d: dict) -> List[dict]:
    """real inputs (cases of c05.py) realising a disagreement valuation"""
    name, pi = d["table"], dict(d["valuation"])
    cases: List[Optional[dict]] = []
    if name in ("isIdSwitchedTree", "isSameMatchTree"):
        # reach the predicate through _calculate_tp_fp: both results evaluated and correct at the threshold where they can be
        for tp_cur in (True, False):
            p2 = dict(pi)
            p2.setdefault(("hasGt", "c0"), True)
            p2.setdefault(("hasGt", "p0"), True)
            side = "gt" if p2[("hasGt", "c0")] else "est"
            p2[("inTargets", 0, side)] = True
            if p2[("hasGt", "p0")]:
                p2[("isTp", "p0", ("thr", 0, side))] = True
            if p2[("hasGt", "c0")]:
                p2[("isTp", "c0", ("thr", 0, side))] = tp_cur
            cases.append(realise_step(1, 1, p2))
    elif name.startswith("stepTree_"):
        _, nc, np_ = name.split("_")
        cases.append(realise_step(int(nc), int(np_), pi))
    elif name == "scoreTree":
        g = 0 if pi.get(("ord", "num_gt", "0"), "gt") == "eq" else 2
        tp0 = pi.get(("ord", "tp", "0"), "gt") == "eq"
        sign = pi.get(("ord", "(tp-fp-id_switch)/num_gt", "0"))
        tpr, fpr = [1, 1, None, LCAR, 0.0, 0.0], None
        shapes = {("lt", True): (0, 1), ("eq", True): (0, 0), ("lt", False): (1, 2), ("eq", False): (1, 1), ("gt", False): (1, 0),
                  (None, True): (0, 1), (None, False): (1, 0)}
        sh = shapes.get((sign, tp0))
        if sh is not None:
            k, m = sh
            cur = [[10 + x, LCAR, 10 + x, LCAR, 0.5, 0.0] for x in range(k)] + [[20 + x, LCAR, None, LCAR, 0.0, 0.0] for x in range(m)]
            cases.append({"kind": "clear", "mode": "center", "targets": [LCAR], "thrs": [1.0], "g": g, "tpm": "ap",
                          "policy": "DEFAULT", "hist": [[], cur], "ren": 7})
    elif name.startswith("initTree_"):
        n = int(name.split("_")[1])
        # every non-empty frame: one TP result on ground truth 1 under a NEW estimate id, so that a pair of frames that is
        # compared although it is not consecutive books a switch the definition does not know
        hist = [([] if pi.get(("empty", i), False) else [[i + 1, LCAR, 1, LCAR, 0.5, 0.0]]) for i in range(n)]
        cases.append({"kind": "clear", "mode": "center", "targets": [LCAR], "thrs": [1.0], "g": sum(len(f) for f in hist[1:]),
                      "tpm": "ap", "policy": "DEFAULT", "hist": hist, "ren": 7})
    out = []
    for c in cases:
        if c is not None:
            c["dt"] = f"{name}: valuation {sorted((repr(a), o) for a, o in pi.items())}; code's table {d['code']}, model {d['model']}"
            out.append(c)
    return out


def witness_cases(max_cases: int = 60) -> List[dict]:
    """real inputs for the valuations on which this run's tables differ from the skeletons (empty on an unchanged tree)"""
    import json

    out, seen = [], set()
    for name in sorted(TABLES, key=lambda n: (0 if n.startswith("is") else 1, n)):
        per = 0
        for d in disagreements(name):
            for c in realise(d):
                k = json.dumps({x: c[x] for x in c if x != "dt"}, sort_keys=True)
                if k not in seen:
                    seen.add(k)
                    out.append(c)
                    per += 1
            if per >= 12:
                break
    return out[:max_cases]


def summary() -> Dict[str, Any]:
    dis = {n: len(disagreements(n, limit=50)) for n in TABLES}
    return {"tables": dict(NOTES), "generation_seconds": round(SECONDS[-1], 2) if SECONDS else None,
            "valuations_where_table_differs_from_skeleton": {n: k for n, k in dis.items() if k}}
