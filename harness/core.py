"""Shared machinery of the checks: paths, PRNG, rational <-> float conversion, the Lean side
(translator call, lake build, axiom audit, forbidden-token grep, model driver), known findings,
replays, evidence.  Everything is checkout-relative: VERIF = the directory holding this package.
"""
from __future__ import annotations

import contextlib
import fcntl
import json
import math
import os
import random
import re
import subprocess
import sys
import time
from fractions import Fraction
from pathlib import Path
from typing import Any, Dict, Iterable, List, Optional, Sequence, Tuple

VERIF = Path(__file__).resolve().parent.parent
LEAN_DIR = VERIF / "lean"
EVIDENCE_DIR = VERIF / "evidence"
REPLAY_DIR = VERIF / "replays"
KNOWN_FILE = VERIF / "known_findings.json"
REPO = Path(os.environ.get("PEVAL_REPO", "/repo"))

ALLOWED_AXIOMS = {"propext", "Classical.choice", "Quot.sound"}
FORBIDDEN = re.compile(
    r"\bsorry\b|\badmit\b|^\s*axiom\s|native_decide|bv_decide|implemented_by|\bunsafe\s|maxHeartbeats\s+0\b"
)

TRUSTED_BASE_COMMON = [
    "Lean 4.33.0 kernel; axioms allowed: propext, Classical.choice, Quot.sound (audited with #print axioms on every run)",
    "no sorry/admit/axiom/native_decide/bv_decide/implemented_by/unsafe in lean/PEval (grep on every run)",
    "the hand-written model is tied to /repo only through the correspondence run of this check (differential execution)",
    "IEEE-754 arithmetic of the implementation is compared with exact rationals of the model within a tolerance",
]


# ----------------------------------------------------------------------------- numbers

def F(x) -> Fraction:
    """exact rational of an int / float / Fraction / 'p/q' string"""
    if isinstance(x, Fraction):
        return x
    if isinstance(x, bool):
        return Fraction(int(x))
    if isinstance(x, int):
        return Fraction(x)
    if isinstance(x, float):
        return Fraction(x)
    if isinstance(x, str):
        return Fraction(x)
    try:
        import numpy as np  # noqa

        if isinstance(x, (np.floating, np.integer)):
            return Fraction(float(x)) if isinstance(x, np.floating) else Fraction(int(x))
    except Exception:
        pass
    raise TypeError(f"cannot convert {type(x)} to Fraction")


def q(x) -> str:
    """protocol spelling of a rational: 'p/q' or 'p'"""
    f = F(x)
    return str(f.numerator) if f.denominator == 1 else f"{f.numerator}/{f.denominator}"


def qopt(x) -> Optional[str]:
    if x is None:
        return None
    if isinstance(x, float) and (math.isnan(x) or math.isinf(x)):
        return None
    return q(x)


def unq(s) -> Optional[Fraction]:
    if s is None:
        return None
    return Fraction(s)


def close(a, b, rel=1e-9, abs_=1e-9) -> bool:
    """float-vs-rational comparison; None/inf/nan must agree exactly"""
    if a is None or b is None:
        return a is None and b is None
    fa, fb = float(a), float(b)
    if math.isnan(fa) or math.isnan(fb):
        return math.isnan(fa) and math.isnan(fb)
    if math.isinf(fa) or math.isinf(fb):
        return fa == fb
    return abs(fa - fb) <= max(abs_, rel * max(abs(fa), abs(fb)))


def dyadic(rng: random.Random, lo: float, hi: float, denom: int = 8) -> float:
    """a float that is an exact multiple of 1/denom in [lo, hi]"""
    return rng.randint(int(lo * denom), int(hi * denom)) / denom


def err_kind(e: BaseException) -> str:
    """canonical error kind of an exception raised by the real code"""
    return type(e).__name__


def seed_from_env() -> int:
    try:
        return int(os.environ.get("VERIF_SEED", "0"))
    except ValueError:
        return 0


# ----------------------------------------------------------------------------- locking

@contextlib.contextmanager
def lean_lock():
    (LEAN_DIR / ".lake").mkdir(exist_ok=True)
    with open(LEAN_DIR / ".lake" / "verif.lock", "w") as fh:
        fcntl.flock(fh, fcntl.LOCK_EX)
        try:
            yield
        finally:
            fcntl.flock(fh, fcntl.LOCK_UN)


def _run(cmd: Sequence[str], cwd: Path, timeout: int = 3600) -> Tuple[int, str]:
    p = subprocess.run(cmd, cwd=str(cwd), stdout=subprocess.PIPE, stderr=subprocess.STDOUT, text=True, timeout=timeout)
    return p.returncode, p.stdout


# ----------------------------------------------------------------------------- Lean side

class LeanStatus:
    def __init__(self) -> None:
        self.translator_ok = True
        self.translator_msg = ""
        self.build_ok = True
        self.build_log = ""
        self.broken: List[str] = []  # names of theorems / modules that no longer check
        self.axioms: Dict[str, List[str]] = {}
        self.bad_axioms: Dict[str, List[str]] = {}
        self.missing: List[str] = []
        self.forbidden_hits: List[str] = []
        self.driver_ok = True
        self.driver_msg = ""
        self.driver_crashed = False  # the driver process died / timed out while answering (infrastructure, not a verdict)
        self.infra = ""  # non-empty: the toolchain itself failed (no source location in the build output)
        self.tables_present: Optional[dict] = None
        self.driver_path: Optional[str] = None
        self.leanchecker: Optional[str] = None

    @property
    def proofs_ok(self) -> bool:
        return (
            self.translator_ok
            and self.build_ok
            and not self.broken
            and not self.bad_axioms
            and not self.missing
            and not self.forbidden_hits
        )

    def discharged(self, theorems: Sequence[str]) -> int:
        if not (self.translator_ok and self.build_ok) or self.forbidden_hits:
            return 0
        return sum(1 for t in theorems if t in self.axioms and t not in self.bad_axioms)

    def summary(self) -> str:
        parts = []
        if not self.translator_ok:
            parts.append("translator failed: " + self.translator_msg[:300])
        if not self.build_ok:
            parts.append("lake build failed; broken: " + ", ".join(self.broken or ["(see log)"]))
        if self.missing:
            parts.append("theorems missing: " + ", ".join(self.missing))
        if self.bad_axioms:
            parts.append("unexpected axioms: " + json.dumps(self.bad_axioms))
        if self.forbidden_hits:
            parts.append("forbidden tokens: " + "; ".join(self.forbidden_hits[:5]))
        if not self.driver_ok:
            parts.append("model driver failed: " + self.driver_msg[:300])
        return " | ".join(parts) if parts else "ok"


def run_translator() -> Tuple[bool, str, Dict[str, str]]:
    """regenerate lean/PEval/Gen/*.lean from the CURRENT /repo source; returns (ok, message, {file: why it failed})"""
    from . import gen_tables

    try:
        changed = gen_tables.generate(LEAN_DIR / "PEval" / "Gen")
        failed = dict(getattr(gen_tables, "FAILED", {}))
        msg = ("changed: " + ",".join(changed)) if changed else "unchanged"
        if failed:
            msg += "; generators that could not follow the source: " + "; ".join(f"{k} ({v[:120]})" for k, v in failed.items())
        return True, msg, failed
    except Exception as e:  # the translator itself broke
        return False, f"{type(e).__name__}: {e}", {}


def lean_imports(module: str, seen: Optional[set] = None) -> set:
    """transitive `import PEval.…` closure of a module of our library (by reading the sources)"""
    seen = set() if seen is None else seen
    if module in seen or not module.startswith("PEval"):
        return seen
    seen.add(module)
    path = LEAN_DIR / (module.replace(".", "/") + ".lean")
    try:
        txt = path.read_text()
    except OSError:
        return seen
    for m in re.finditer(r"^import\s+(PEval[\w.]*)", txt, re.M):
        lean_imports(m.group(1), seen)
    return seen


_ERR_RE = re.compile(r"^error: (?:[^:]*?/)?(PEval/[\w/]+\.lean|Driver\.lean):(\d+):(\d+)", re.M)


def _theorem_at(path: Path, line: int) -> str:
    """name of the declaration enclosing `line` (1-based) in a Lean file"""
    try:
        lines = path.read_text().splitlines()
    except OSError:
        return f"{path.name}:{line}"
    ns = ""
    name = None
    for i, l in enumerate(lines[:line]):
        m = re.match(r"\s*namespace\s+([\w.]+)", l)
        if m:
            ns = m.group(1)
        m = re.match(r"\s*(?:@\[[^\]]*\]\s*)?(?:private\s+|protected\s+)?(?:theorem|lemma|def|instance|example|abbrev)\s+([\w.']+)?", l)
        if m:
            name = m.group(1) or f"example@{i+1}"
    if name is None:
        return f"{path.name}:{line}"
    return f"{ns}.{name}" if ns and not name.startswith(ns) else name


def lake_build(targets: Sequence[str], st: LeanStatus) -> None:
    rc, out = _run(["lake", "build", *targets], LEAN_DIR)
    st.build_log = out[-6000:]
    if rc != 0:
        st.build_ok = False
        seen = []
        for m in _ERR_RE.finditer(out):
            f, ln = m.group(1), int(m.group(2))
            nm = _theorem_at(LEAN_DIR / f, ln)
            tag = f"{nm} ({f}:{ln})"
            if tag not in seen:
                seen.append(tag)
        if not seen:
            # the build failed without pointing at a line of our sources: the toolchain is broken (lake/lean missing or
            # crashing, out of memory, unwritable build directory ...) - an infrastructure error, not a broken proof
            st.infra = "lake build " + " ".join(targets) + " failed without a source error: " + out[-600:]
        st.broken = seen or ["lake build " + " ".join(targets)]


_AX_RE = re.compile(r"'(\S+)' depends on axioms: \[([^\]]*)\]|'(\S+)' does not depend on any axioms", re.S)


def audit_axioms(prop: str, module: str, theorems: Sequence[str], st: LeanStatus) -> None:
    """`#print axioms` for every registered theorem, against the compiled property module"""
    adir = LEAN_DIR / ".lake" / "audit"
    adir.mkdir(parents=True, exist_ok=True)
    f = adir / f"Audit{prop}.lean"
    f.write_text(f"import {module}\n" + "".join(f"#print axioms {t}\n" for t in theorems))
    rc, out = _run(["lake", "env", "lean", str(f)], LEAN_DIR)
    for m in _AX_RE.finditer(out):
        if m.group(1):
            st.axioms[m.group(1)] = [a.strip() for a in m.group(2).replace("\n", " ").split(",") if a.strip()]
        else:
            st.axioms[m.group(3)] = []
    for t in theorems:
        if t not in st.axioms:
            st.missing.append(t)
        else:
            bad = [a for a in st.axioms[t] if a not in ALLOWED_AXIOMS]
            if bad:
                st.bad_axioms[t] = bad


def grep_forbidden(st: LeanStatus) -> None:
    files = list((LEAN_DIR / "PEval").rglob("*.lean")) + [LEAN_DIR / "Driver.lean"]
    for f in files:
        in_block = 0
        for i, line in enumerate(f.read_text().splitlines(), 1):
            code = line
            # strip block comments (/- ... -/, possibly nested) and line comments
            res = ""
            j = 0
            while j < len(code):
                if code.startswith("/-", j):
                    in_block += 1
                    j += 2
                elif code.startswith("-/", j) and in_block:
                    in_block -= 1
                    j += 2
                elif in_block:
                    j += 1
                elif code.startswith("--", j):
                    break
                else:
                    res += code[j]
                    j += 1
            if FORBIDDEN.search(res):
                st.forbidden_hits.append(f"{f.relative_to(LEAN_DIR)}:{i}: {line.strip()[:80]}")


def prepare_lean(prop: str, theorems: Sequence[str], tier: str, extra_targets: Sequence[str] = ()) -> LeanStatus:
    """translate, build the property module and the driver, audit. Serialised by a file lock."""
    st = LeanStatus()
    module = f"PEval.Properties.{prop}"
    with lean_lock():
        ok, st.translator_msg, failed = run_translator()
        # a generator that could not follow the source matters only to the properties whose modules import its file
        deps = lean_imports(module) | lean_imports(f"PEval.Driver.{prop}")
        hit = [f for f in failed if ("PEval.Gen." + f[:-5]) in deps]
        st.translator_ok = ok and not hit
        if hit:
            st.translator_msg = "translator failed for " + ", ".join(f"{f}: {failed[f][:200]}" for f in hit)
        # the driver first (it does not depend on the proofs), so that a broken proof leaves the
        # correspondence check usable
        rc, out = _run(["lake", "build", "pevaldriver"], LEAN_DIR)
        if rc != 0:
            st.driver_ok = False
            st.driver_msg = out[-2000:]
            if not _ERR_RE.search(out):
                st.infra = "lake build pevaldriver failed without a source error: " + out[-600:]
        else:
            # a private copy of the driver for this process: another check running in the same tree may rebuild the binary
            try:
                import shutil

                src = LEAN_DIR / ".lake" / "build" / "bin" / "pevaldriver"
                dst = Path(use_scratch_tmpdir()) / "pevaldriver"
                shutil.copy2(src, dst)
                st.driver_path = str(dst)
            except Exception:  # noqa: BLE001
                st.driver_path = None
        lake_build([module, *extra_targets], st)
        if st.build_ok:
            audit_axioms(prop, module, theorems, st)
        grep_forbidden(st)
        # informational, never a verdict: are all generated tables present and non-empty on this tree? (a decision table the
        # translator could not follow is `none`, and its theorems hold vacuously - the evidence must say so)
        try:
            rc2, out2 = _run(["lake", "build", "PEval.Properties.TablesPresent"], LEAN_DIR, timeout=600)
            m = re.search(r"TABLES-PRESENT total=(\d+) missing=\[(.*?)\]", out2)
            if m is None and rc2 == 0:
                rc3, out3 = _run(["lake", "env", "lean", "PEval/Properties/TablesPresent.lean"], LEAN_DIR, timeout=600)
                m = re.search(r"TABLES-PRESENT total=(\d+) missing=\[(.*?)\]", out3)
            st.tables_present = ({"total": int(m.group(1)), "missing": [x.strip() for x in m.group(2).split(",") if x.strip()]}
                                 if m else {"total": None, "missing": None, "note": "status line not found"})
        except Exception as e:  # noqa: BLE001
            st.tables_present = {"total": None, "missing": None, "note": f"{type(e).__name__}"}
        if tier == "thorough" and st.build_ok:
            rc, out = _run(["lake", "env", "leanchecker", module], LEAN_DIR, timeout=3600)
            st.leanchecker = "ok" if rc == 0 else "FAILED: " + out[-500:]
            if rc != 0:
                st.broken.append(f"leanchecker {module}")
    return st


def run_model(prop: str, requests: List[dict], st: Optional[LeanStatus] = None) -> List[Optional[dict]]:
    """send the requests (one JSON line each) to the Lean model driver; responses by position"""
    if not requests:
        return []
    exe = LEAN_DIR / ".lake" / "build" / "bin" / "pevaldriver"
    lines = []
    for i, r in enumerate(requests):
        r = dict(r)
        r["prop"] = prop
        r["id"] = i
        lines.append(json.dumps(r, separators=(",", ":")))
    data = "\n".join(lines) + "\n"
    if st is not None and st.driver_ok and st.driver_path and os.path.exists(st.driver_path):
        cmd = [st.driver_path]
    elif exe.exists() and (st is None or st.driver_ok):
        cmd = [str(exe)]
    else:
        cmd = ["lake", "env", "lean", "--run", "Driver.lean"]
    out: List[Optional[dict]] = [None] * len(requests)
    try:
        p = subprocess.run(cmd, cwd=str(LEAN_DIR), input=data, stdout=subprocess.PIPE, stderr=subprocess.PIPE, text=True,
                           timeout=int(os.environ.get("VERIF_DRIVER_TIMEOUT", "3600")))
    except subprocess.TimeoutExpired:
        if st is not None:
            st.driver_ok = False
            st.driver_crashed = True
            st.driver_msg = "model driver timed out"
        return out
    for line in p.stdout.splitlines():
        line = line.strip()
        if not line.startswith("{"):
            continue
        try:
            j = json.loads(line)
        except json.JSONDecodeError:
            continue
        i = j.get("id")
        if isinstance(i, int) and 0 <= i < len(out):
            out[i] = j
    if p.returncode != 0 and st is not None:
        st.driver_ok = False
        st.driver_crashed = True
        st.driver_msg = (p.stderr or p.stdout)[-1000:]
    return out


# ----------------------------------------------------------------------------- known findings

def load_known(prop: str) -> List[dict]:
    if not KNOWN_FILE.exists():
        return []
    data = json.loads(KNOWN_FILE.read_text())
    return [e for e in data.get("findings", []) if e.get("property") == prop]


# ----------------------------------------------------------------------------- replay / evidence

def write_replay(prop: str, payload: dict, seed: int) -> str:
    REPLAY_DIR.mkdir(exist_ok=True)
    name = f"{prop}-{seed}-{int(time.time())}.json"
    path = REPLAY_DIR / name
    path.write_text(json.dumps(payload, indent=1, default=str))
    return str(path.relative_to(VERIF))


def write_evidence(prop: str, ev: dict) -> None:
    EVIDENCE_DIR.mkdir(exist_ok=True)
    (EVIDENCE_DIR / f"{prop}.json").write_text(json.dumps(jsonable(ev), indent=1, default=str))


def write_evidence_stub(prop: str, tier: str, seed: int, why: str, violations: int = 0) -> None:
    """an infrastructure error leaves no stale evidence behind: the file says that nothing was established"""
    try:
        EVIDENCE_DIR.mkdir(exist_ok=True)
        (EVIDENCE_DIR / f"{prop}.json").write_text(json.dumps({
            "property_id": prop, "tier": tier, "seed": seed, "level": "proof",
            "coverage": {"obligations": 0, "discharged": 0, "checker_cmd": "", "trusted_base": [],
                         "infrastructure_error": str(why)[:1000]},
            "assumptions": [], "wall_s": 0, "violations": violations}, indent=1))
    except Exception:
        pass


class CaseTimeout(Exception):
    pass


class time_limit:
    """`with time_limit(s):` raises CaseTimeout in the main thread after s seconds (SIGALRM; a no-op where unavailable)"""

    def __init__(self, seconds: int) -> None:
        self.seconds = int(seconds)
        self.old = None

    def __enter__(self):
        import signal

        if self.seconds > 0 and hasattr(signal, "SIGALRM"):
            try:
                def _h(signum, frame):
                    raise CaseTimeout()

                self.old = signal.signal(signal.SIGALRM, _h)
                signal.alarm(self.seconds)
            except ValueError:  # not in the main thread
                self.old = None
        return self

    def __exit__(self, *a):
        import signal

        if self.old is not None:
            signal.alarm(0)
            signal.signal(signal.SIGALRM, self.old)
        return False


_SCRATCH = None


def use_scratch_tmpdir() -> str:
    """one scratch directory per check process; every tempfile.mkdtemp()/NamedTemporaryFile of the harness and of the
    library lands inside it and it is removed at exit (the harness used to leak one directory per manager)"""
    global _SCRATCH
    if _SCRATCH is None:
        import atexit
        import shutil
        import tempfile

        base = os.environ.get("VERIF_TMP") or tempfile.gettempdir()
        _SCRATCH = tempfile.mkdtemp(prefix="peval_check_", dir=base)
        tempfile.tempdir = _SCRATCH
        os.environ["TMPDIR"] = _SCRATCH
        atexit.register(shutil.rmtree, _SCRATCH, True)
    return _SCRATCH


def jsonable(x: Any) -> Any:
    """make a case printable: Fractions to 'p/q', tuples to lists"""
    if isinstance(x, Fraction):
        return q(x)
    if isinstance(x, dict):
        return {str(k): jsonable(v) for k, v in x.items()}
    if isinstance(x, (list, tuple)):
        return [jsonable(v) for v in x]
    if isinstance(x, float) and (math.isnan(x) or math.isinf(x)):
        return str(x)
    return x
