"""Entry point of every check:  python -m harness.run_check Cxx [--tier quick|thorough] [--replay FILE]

Pipeline (DESIGN.md section 3.2): translate -> prove (lake build) -> audit axioms -> correspondence
(real code vs Lean model on the same cases) -> oracle (the property statement evaluated on the real
code's outputs) -> failing-input search when a proof or the correspondence broke -> verdict,
evidence, exit code (0 held / 1 violation / 2 infrastructure error).
"""
from __future__ import annotations

import argparse
import importlib
import json
import logging
import os
import random
import sys
import time
import traceback
import warnings
from collections import Counter
from typing import Any, Dict, List, Optional

from . import core


def _load(prop: str):
    return importlib.import_module(f"harness.props.{prop.lower()}")


def _canon(case: Any) -> str:
    return json.dumps(core.jsonable(case), sort_keys=True, default=str)


def _raised_in_library(e: BaseException) -> bool:
    """did the exception originate inside the library under test (a frame of the package `perception_eval` at or below
    the raise site), as opposed to harness code?"""
    tb = e.__traceback__
    last = None
    while tb is not None:
        last = tb
        tb = tb.tb_next
    if last is None:
        return False
    fn = last.tb_frame.f_code.co_filename.replace("\\", "/")
    if "/perception_eval/" in fn and "/harness/" not in fn:
        return True
    # raised by a third-party / stdlib function CALLED from the library (numpy, pyquaternion, ...): walk up to the first
    # frame that is either the library or the harness
    frames = []
    tb = e.__traceback__
    while tb is not None:
        frames.append(tb.tb_frame.f_code.co_filename.replace("\\", "/"))
        tb = tb.tb_next
    for fn in reversed(frames):
        if "/harness/" in fn:
            return False
        if "/perception_eval/" in fn:
            return True
    return False


class Runner:
    def __init__(self, mod, tier: str, seed: int) -> None:
        self.mod = mod
        self.prop = mod.PROP
        self.tier = tier
        self.seed = seed
        self.rng = random.Random(seed * 1000003 + sum(map(ord, self.prop)))
        self.evaluations = 0
        self.distinct = set()
        self.branch_hist: Counter = Counter()
        self.samples: List[Any] = []
        self.disagreements: List[dict] = []
        self.failures: List[dict] = []  # oracle failures on the real code
        self.known_hits: Dict[str, int] = Counter()
        self.skipped = 0
        self.infra: List[str] = []  # failures of the harness itself (never a property violation; exit 2)
        self.known_ids = {e["id"] for e in core.load_known(self.prop) if e.get("kind") == "known"}
        self.case_timeout = int(os.environ.get("VERIF_CASE_TIMEOUT", "300"))

    def _infra(self, where: str, e: BaseException) -> None:
        if len(self.infra) < 20:
            self.infra.append(f"{where}: {type(e).__name__}: {e} :: {traceback.format_exc()[-700:]}")

    # ---- one batch: implementation, model, compare, oracle
    def run_batch(self, cases: List[Any], st: core.LeanStatus, with_model: bool = True) -> None:
        mod = self.mod
        outs = []
        for c in cases:
            try:
                with core.time_limit(self.case_timeout):
                    out = mod.run_impl(c)
            except core.CaseTimeout:
                # the real code did not return: reported as a failure of the property on this input (it neither returned
                # a result nor rejected the input)
                out = {"err": "Timeout", "unexpected": True, "trace": f"no result within {self.case_timeout} s"}
            except Exception as e:
                if _raised_in_library(e):  # the real code raised where the harness expected it to return
                    out = {"err": core.err_kind(e), "unexpected": True, "trace": traceback.format_exc()[-800:]}
                else:  # the harness itself failed (set-up, helper, temp dir ...): not a statement about the property
                    self._infra("run_impl", e)
                    out = None
            outs.append(out)
        keep = [i for i, o in enumerate(outs) if o is not None]
        cases = [cases[i] for i in keep]
        outs = [outs[i] for i in keep]
        # model
        resps_per_case: List[Optional[List[Optional[dict]]]] = [None] * len(cases)
        if with_model and st.driver_ok and hasattr(mod, "model_requests"):
            reqs: List[dict] = []
            spans = []
            for c, o in zip(cases, outs):
                try:
                    rs = mod.model_requests(c, o) or []
                except Exception as e:
                    rs = []
                    if not o.get("unexpected"):
                        self._infra("model_requests", e)
                spans.append((len(reqs), len(reqs) + len(rs)))
                reqs.extend(rs)
            resps = core.run_model(self.prop, reqs, st)
            for i, (a, b) in enumerate(spans):
                resps_per_case[i] = resps[a:b]
        for i, (c, o) in enumerate(zip(cases, outs)):
            self.evaluations += 1
            try:
                br = list(mod.branches(c, o)) if hasattr(mod, "branches") else []
            except Exception:
                br = ["branches-error"]
            for b in br:
                self.branch_hist[b] += 1
            if "trivial" not in br:
                self.distinct.add(_canon(c))
            if len(self.samples) < 3 and "trivial" not in br:
                self.samples.append({"case": core.jsonable(c), "impl": core.jsonable(o)})
            # correspondence
            rs = resps_per_case[i]
            if rs is not None and rs:
                try:
                    if any(r is None for r in rs):
                        d = "model driver gave no response"
                    elif any(("driver_error" in r) for r in rs):
                        d = "model driver error: " + str([r.get("driver_error") for r in rs if "driver_error" in r][:1])
                    else:
                        d = mod.compare(c, o, rs)
                except Exception as e:
                    d = None
                    if not o.get("unexpected"):
                        self._infra("compare", e)
                if d == "skip":
                    self.skipped += 1
                elif d:
                    self.disagreements.append({"case": c, "impl": o, "model": rs, "why": d})
            # oracle
            if isinstance(o, dict) and o.get("unexpected"):
                f = f"the real code raised {o.get('err')} unexpectedly (no result, no anticipated rejection): {str(o.get('trace'))[-500:]}"
            else:
                try:
                    f = mod.oracle(c, o)
                except Exception as e:
                    f = None
                    self._infra("oracle", e)
            if f:
                kid = None
                if hasattr(mod, "known_finding"):
                    try:
                        kid = mod.known_finding(c, o, f)
                    except Exception as e:
                        kid = None
                        self._infra("known_finding", e)
                if kid and kid in self.known_ids:  # only LISTED findings of kind "known" suppress a failure
                    self.known_hits[kid] += 1
                else:
                    self.failures.append({"case": c, "impl": o, "why": f})

    def shrink(self, fail: dict, st: core.LeanStatus) -> dict:
        mod = self.mod
        if not hasattr(mod, "shrink"):
            return fail
        cur = fail
        budget = 200
        improved = True
        while improved and budget > 0:
            improved = False
            try:
                cands = list(mod.shrink(cur["case"]))
            except Exception:
                break
            for cand in cands:
                budget -= 1
                if budget <= 0:
                    break
                try:
                    out = mod.run_impl(cand)
                    f = mod.oracle(cand, out)
                except Exception:
                    continue
                try:
                    kid = mod.known_finding(cand, out, f) if (f and hasattr(mod, "known_finding")) else None
                except Exception:
                    continue
                if f and not (kid and kid in self.known_ids):
                    cur = {"case": cand, "impl": out, "why": f}
                    improved = True
                    break
        return cur


def main(argv=None) -> int:
    ap = argparse.ArgumentParser()
    ap.add_argument("prop")
    ap.add_argument("--tier", default=os.environ.get("VERIF_TIER", "quick"), choices=["quick", "thorough"])
    ap.add_argument("--replay", default=None)
    args = ap.parse_args(argv)
    warnings.filterwarnings("ignore")
    logging.disable(logging.CRITICAL)
    t0 = time.time()
    prop = args.prop.upper()
    seed = core.seed_from_env()
    try:
        mod = _load(prop)
    except Exception:
        print(f"INFRA-ERROR: cannot load harness module for {prop}\n{traceback.format_exc()}")
        return 2
    theorems = list(dict.fromkeys(getattr(mod, "THEOREMS", [])))
    # theorems registered / de-registered outside the property module (harness/extra_theorems.json: added by Lean-only
    # work; removed = kept in the Lean text but no longer counted as an obligation, e.g. definitional facts)
    try:
        extra = json.loads((core.VERIF / "harness" / "extra_theorems.json").read_text()).get(prop, {})
        theorems = [t for t in theorems if t not in set(extra.get("remove", []))]
        theorems += [t for t in extra.get("add", []) if t not in theorems]
    except FileNotFoundError:
        pass
    core.use_scratch_tmpdir()  # every mkdtemp of the harness lands in one per-process directory, removed at exit
    run = Runner(mod, args.tier, seed)

    # ---------------------------------------------------------------- replay mode
    if args.replay:
        try:
            payload = json.loads(open(args.replay).read())
            case = payload.get("case")
            st = core.prepare_lean(prop, theorems, "quick")
            if st.infra:
                print(f"INFRA-ERROR: {st.infra}")
                return 2
            if case is None:
                # a no-failing-input-found replay: it names the broken theorem / the first diverging correspondence case
                print(f"replay {args.replay} names no failing input: {str(payload.get('broken'))[:600]}")
                print("lean status:", st.summary())
                fd = (payload.get("broken") or {}).get("first_disagreement") or {}
                if fd.get("case") is not None:
                    run.run_batch([fd["case"]], st)
                still = (not st.proofs_ok) or bool(run.disagreements) or bool(run.failures)
                if run.infra and not still:
                    print("INFRA-ERROR: " + run.infra[0])
                    return 2
                if still:
                    print(f"VIOLATION property={prop} replay={args.replay}" + ("" if run.failures else " no-failing-input-found"))
                    return 1
                print("replay passes")
                return 0
            run.run_batch([case], st)
        except Exception:
            print(f"INFRA-ERROR: replay failed\n{traceback.format_exc()}")
            return 2
        for f in run.failures:
            print("property fails on the real code:", f["why"])
        for d in run.disagreements:
            print("model and code disagree:", d["why"])
        if run.failures or run.disagreements:
            print(f"VIOLATION property={prop} replay={args.replay}" + ("" if run.failures else " no-failing-input-found"))
            return 1
        if run.infra:
            print("INFRA-ERROR: " + run.infra[0])
            return 2
        print("replay passes" + (" (a listed known finding reproduces)" if run.known_hits else ""))
        return 0

    # ---------------------------------------------------------------- translate, prove, audit
    try:
        st = core.prepare_lean(prop, theorems, args.tier, getattr(mod, "EXTRA_TARGETS", ()))
    except Exception:
        print(f"INFRA-ERROR: lean toolchain failed\n{traceback.format_exc()}")
        core.write_evidence_stub(prop, args.tier, seed, "lean toolchain failed")
        return 2
    if st.infra:
        # the toolchain itself failed (lake/lean missing or crashing, driver build failing without a source error):
        # nothing can be said about the property
        print(f"INFRA-ERROR: {st.infra}")
        core.write_evidence_stub(prop, args.tier, seed, st.infra)
        return 2

    # ---------------------------------------------------------------- correspondence + oracle
    try:
        corpus = list(mod.corpus()) if hasattr(mod, "corpus") else []
        run.run_batch(corpus, st)
        gen = list(mod.generate(run.rng, args.tier))
        B = 400
        for i in range(0, len(gen), B):
            run.run_batch(gen[i : i + B], st)
    except Exception:
        print(f"INFRA-ERROR: harness failed\n{traceback.format_exc()}")
        core.write_evidence_stub(prop, args.tier, seed, "harness failed: " + traceback.format_exc()[-400:])
        return 2
    if st.driver_crashed and not run.failures:
        print(f"INFRA-ERROR: the model driver crashed: {st.driver_msg[:400]}")
        core.write_evidence_stub(prop, args.tier, seed, "model driver crashed")
        return 2

    # ---------------------------------------------------------------- failing-input search
    searched = 0
    if (not st.proofs_ok or run.disagreements or not st.driver_ok) and not run.failures:
        # (a) property-specific targeted search (e.g. exhaustive over regenerated tables)
        try:
            if hasattr(mod, "search"):
                extra = list(mod.search(run.rng, st, run.disagreements))
                searched += len(extra)
                for i in range(0, len(extra), 400):
                    run.run_batch(extra[i : i + 400], st, with_model=False)
                    if run.failures:
                        break
            # (b) neighbourhood of the diverging cases
            if not run.failures and run.disagreements and hasattr(mod, "shrink"):
                neigh = []
                for d in run.disagreements[:5]:
                    neigh.extend(list(mod.shrink(d["case"]))[:40])
                searched += len(neigh)
                run.run_batch(neigh, st, with_model=False)
            # (c) a larger seeded budget
            if not run.failures:
                rng2 = random.Random(seed + 7919)
                for rnd in range(10 if args.tier == "quick" else 20):
                    extra = list(mod.generate(rng2, args.tier))
                    searched += len(extra)
                    for i in range(0, len(extra), 400):
                        run.run_batch(extra[i : i + 400], st, with_model=False)
                        if run.failures:
                            break
                    if run.failures or time.time() - t0 > (240 if args.tier == "quick" else 1500):
                        break
        except Exception:
            print(f"INFRA-ERROR: search failed\n{traceback.format_exc()}")
            core.write_evidence_stub(prop, args.tier, seed, "search failed")
            return 2

    # ---------------------------------------------------------------- known findings
    known = [e for e in core.load_known(prop) if e.get("kind") == "known"]
    for e in known:
        hits = run.known_hits.get(e["id"], 0)
        if hits:
            print(f"KNOWN-FINDING: property={prop} {e['what']} [{e['id']}; reproduced on {hits} case(s)]")
        else:
            # informational (exit code unaffected): the listed defect was not met in this run - it may have been repaired
            print(f"NOTE: known finding {e['id']} of {prop} was not reproduced in this run (no case hit its signature)")

    # ---------------------------------------------------------------- verdict
    violations = 0
    lines = []
    if run.failures:
        try:
            first = run.shrink(run.failures[0], st)
        except Exception:
            first = run.failures[0]
        path = core.write_replay(
            prop,
            {
                "property": prop,
                "kind": "failing-input",
                "why": first["why"],
                "case": core.jsonable(first["case"]),
                "impl_output": core.jsonable(first["impl"]),
                "lean_status": st.summary(),
                "other_failures": len(run.failures) - 1,
                "replay_cmd": f"./check {prop} --replay <this file>",
            },
            seed,
        )
        lines.append(f"VIOLATION property={prop} replay={path}")
        violations = len(run.failures)
    elif not st.proofs_ok or run.disagreements or not st.driver_ok:
        payload = {
            "property": prop,
            "kind": "no-failing-input-found",
            "broken": {
                "lean": st.summary(),
                "theorems_or_modules": st.broken + st.missing + list(st.bad_axioms),
                "build_log_tail": st.build_log[-3000:] if not st.build_ok else "",
                "correspondence_disagreements": len(run.disagreements),
                "first_disagreement": core.jsonable(run.disagreements[0]) if run.disagreements else None,
            },
            "searched_cases": searched + run.evaluations,
        }
        path = core.write_replay(prop, payload, seed)
        lines.append(f"VIOLATION property={prop} replay={path} no-failing-input-found")
        violations = 1

    wall = time.time() - t0
    n_obl = len(theorems)
    ev = {
        "property_id": prop,
        "tier": args.tier,
        "seed": seed,
        "level": "proof",
        "coverage": {
            "obligations": n_obl,
            "discharged": st.discharged(theorems),
            "checker_cmd": f"cd lean && lake build PEval.Properties.{prop} && lake env lean .lake/audit/Audit{prop}.lean  (#print axioms of every registered theorem)"
            + ("; lake env leanchecker PEval.Properties." + prop if args.tier == "thorough" else ""),
            "trusted_base": core.TRUSTED_BASE_COMMON + list(getattr(mod, "TRUSTED", [])),
            "theorems": {t: st.axioms.get(t) for t in theorems},
            "lean_status": st.summary(),
            "translator": st.translator_msg,
            "leanchecker": st.leanchecker,
            "generated_tables_present": st.tables_present,
            "evaluations": run.evaluations,
            "distinct_nontrivial": len(run.distinct),
            "rule": getattr(mod, "RULE", ""),
            "samples": run.samples[:3],
            "branches": dict(run.branch_hist.most_common()),
            "correspondence_disagreements": len(run.disagreements),
            "oracle_failures": len(run.failures),
            "known_finding_hits": dict(run.known_hits),
            "skipped_near_boundary": run.skipped,
            "failing_input_search_cases": searched,
            "exhaustive": bool(getattr(mod, "EXHAUSTIVE", False)),
        },
        "assumptions": list(getattr(mod, "ASSUMPTIONS", [])),
        "wall_s": round(wall, 2),
        "violations": violations,
    }
    if hasattr(mod, "extra_evidence"):
        try:
            ev["coverage"].update(mod.extra_evidence())
        except Exception:
            pass
    ev["coverage"]["harness_errors"] = run.infra[:5]
    print(
        f"{prop} [{args.tier}] seed={seed}: theorems {ev['coverage']['discharged']}/{n_obl} discharged; "
        f"{run.evaluations} cases ({len(run.distinct)} distinct non-trivial), "
        f"{len(run.disagreements)} disagreements, {len(run.failures)} oracle failures, "
        f"{run.skipped} skipped; lean: {st.summary()}; {wall:.1f}s"
    )
    for l in lines:
        print(l)
    sys.stdout.flush()
    try:
        core.write_evidence(prop, ev)
    except Exception:
        core.write_evidence_stub(prop, args.tier, seed, "evidence could not be serialised: " + traceback.format_exc()[-300:],
                                 violations=violations)
    if violations:
        return 1
    if run.infra:
        # the harness itself failed on some case(s): nothing is claimed about the property for them
        print(f"INFRA-ERROR: the harness failed on {len(run.infra)} case(s) (no property violation is claimed): {run.infra[0][:600]}")
        return 2
    return 0


if __name__ == "__main__":
    sys.exit(main())
