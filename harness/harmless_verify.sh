#!/bin/bash
# harmless_verify.sh <prop> <H1|H2> : confirm a behaviour-preserving refactoring delivered in /tmp/s/<prop>_out:
# patch applies on /repo HEAD, the equivalence program writes IDENTICAL observations before/after, the pinned suite passes.
prop=$1; v=$2; case $v in H1|H2) out=/tmp/s/waveH/${prop}_out;; *) out=/tmp/s/${prop}_out;; esac; wt=/tmp/v/h_${prop}_${v}_$$
rm -rf $wt; mkdir -p /tmp/v; git -C /repo worktree add -q --detach $wt HEAD || exit 2
export PYTHONPATH=$wt/perception_eval
cd $wt
/venv/bin/python -W ignore $out/equiv_$v.py /tmp/v/h_${prop}_$v.a.json >/dev/null 2>&1; e0=$?
git apply $out/patch_$v.diff; ap=$?
/venv/bin/python -W ignore $out/equiv_$v.py /tmp/v/h_${prop}_$v.b.json >/dev/null 2>&1; e1=$?
cmp -s /tmp/v/h_${prop}_$v.a.json /tmp/v/h_${prop}_$v.b.json; same=$?
/venv/bin/python -m pytest -q -p no:cacheprovider --timeout=900 perception_eval/test >/tmp/v/h_${prop}_$v.suite.log 2>&1; su=$?
echo "$prop $v: apply=$ap equiv_runs=$e0/$e1 identical=$same suite_exit=$su [$(tail -1 /tmp/v/h_${prop}_$v.suite.log)]"
cd /; git -C /repo worktree remove --force $wt
