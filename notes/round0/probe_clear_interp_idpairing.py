import math, warnings, logging, tempfile, copy
warnings.filterwarnings("ignore")
logging.disable(logging.CRITICAL)
import numpy as np
from pyquaternion import Quaternion
from perception_eval.common.label import AutowareLabel, Label, TrafficLightLabel
from perception_eval.common.object import DynamicObject
from perception_eval.common.object2d import DynamicObject2D
from perception_eval.common.schema import FrameID
from perception_eval.common.shape import Shape, ShapeType
from perception_eval.common.evaluation_task import EvaluationTask
from perception_eval.common.dataset import FrameGroundTruth, get_interpolated_now_frame
from perception_eval.common.transform import HomogeneousMatrix
from perception_eval.evaluation.result.object_result import get_object_results, DynamicObjectWithPerceptionResult
from perception_eval.evaluation.matching import MatchingMode
from perception_eval.evaluation.matching.objects_filter import get_negative_objects, get_positive_objects
from perception_eval.evaluation.metrics.tracking.clear import CLEAR

def obj(x,y,yaw=0.0,label=AutowareLabel.CAR,score=0.9,frame=FrameID.BASE_LINK,uuid="a",t=100,vel=(0,0,0)):
    q = Quaternion(axis=[0,0,1], angle=yaw)
    return DynamicObject(t, frame, (x,y,0.0), q, Shape(ShapeType.BOUNDING_BOX,(2.0,4.0,1.5)), vel, score, Label(label, label.value, []), uuid=uuid, pointcloud_num=10)

def res(eid, gid, d=0.5, x=0.0):
    e = obj(x, 0, uuid=eid)
    g = obj(x+d, 0, uuid=gid) if gid is not None else None
    return DynamicObjectWithPerceptionResult(e, g)

def clear(frames, ngt):
    c = CLEAR(frames, ngt, [AutowareLabel.CAR], MatchingMode.CENTERDISTANCE, [1.0])
    return dict(c.results)

# perfect tracker 3 frames, 2 targets
f = [[res("e1","g1",x=0), res("e2","g2",x=10)] for _ in range(3)]
print("perfect", clear([[]]+f, 6))
# new id on continuing target at frame 3
f2 = [[res("e1","g1")],[res("e1","g1")],[res("e9","g1")],[res("e9","g1")]]
print("new id", clear([[]]+f2, 4))
# swap
f3 = [[res("e1","g1",x=0), res("e2","g2",x=10)],[res("e1","g2",x=10), res("e2","g1",x=0)],[res("e1","g2",x=10), res("e2","g1",x=0)]]
print("swap", clear([[]]+f3, 6))
# carry-over of non-TP current
f4 = [[res("e1","g1",d=0.5)],[res("e1","g1",d=5.0)]]
print("carry-over with failing current", clear([[]]+f4, 2))

# C17: velocity None
frames = [FrameGroundTruth(1000*k, str(k), [obj(k,0,uuid="g", t=1000*k, vel=None)], transforms=[HomogeneousMatrix((k,0,0),(1,0,0,0),FrameID.BASE_LINK,FrameID.MAP)]) for k in range(1,4)]
try:
    fr = get_interpolated_now_frame(frames, 1500, 1000); print("vel None interp ok")
except Exception as e: print("vel None interp ->", repr(e))

# C17xC03: interpolated frame with object only in one neighbour, base_link dataset
frames = [FrameGroundTruth(1000, "1", [obj(1,0,uuid="g1", t=1000), obj(5,5,uuid="g2",t=1000)], transforms=[HomogeneousMatrix((0,0,0),(1,0,0,0),FrameID.BASE_LINK,FrameID.MAP)]),
          FrameGroundTruth(2000, "2", [obj(2,0,uuid="g1", t=2000), obj(7,7,uuid="g3",t=2000)], transforms=[HomogeneousMatrix((0,0,0),(1,0,0,0),FrameID.BASE_LINK,FrameID.MAP)])]
fr = get_interpolated_now_frame(frames, 1500, 1000)
print([ (o.uuid, o.frame_id, type(o.state.position).__name__, o.unix_time) for o in fr.objects])
try:
    tn, fn = get_negative_objects(fr.objects, [], [AutowareLabel.CAR], MatchingMode.PLANEDISTANCE, [2.0]); print("neg ok", len(fn))
    e = obj(1.5,0,uuid="e", frame=FrameID.MAP, t=1500)
    r = get_object_results(EvaluationTask.TRACKING, [e], fr.objects, transforms=fr.transforms)
    tn, fn = get_negative_objects(fr.objects, r, [AutowareLabel.CAR], MatchingMode.PLANEDISTANCE, [2.0]); print("neg with results ok", len(fn))
except Exception as ex: print("C17xC03 ->", repr(ex))

# C11 id-based
def o2(uuid,label,frame=FrameID.CAM_FRONT): return DynamicObject2D(100, frame, 0.9, Label(label, label.value, []), roi=None, uuid=uuid)
E=[o2("a",AutowareLabel.CAR), o2("b",AutowareLabel.CAR), o2("c",AutowareLabel.BICYCLE)]
G=[o2("b",AutowareLabel.CAR), o2("a",AutowareLabel.PEDESTRIAN), o2("d",AutowareLabel.BICYCLE)]
r = get_object_results(EvaluationTask.CLASSIFICATION2D, E, G)
print([(x.estimated_object.uuid, x.ground_truth_object.uuid if x.ground_truth_object else None) for x in r])
T=TrafficLightLabel
E=[o2("a",T.GREEN, FrameID.CAM_TRAFFIC_LIGHT), o2("b",T.RED, FrameID.CAM_TRAFFIC_LIGHT), o2("c",T.RED, FrameID.CAM_TRAFFIC_LIGHT)]
G=[o2("b",T.GREEN, FrameID.CAM_TRAFFIC_LIGHT), o2("a",T.RED, FrameID.CAM_TRAFFIC_LIGHT), o2("c",T.YELLOW, FrameID.CAM_TRAFFIC_LIGHT)]
for uf in (False, True):
    r = get_object_results(EvaluationTask.CLASSIFICATION2D, E, G, uuid_matching_first=uf)
    print("tlr uuid_first",uf,[(x.estimated_object.uuid, x.ground_truth_object.uuid if x.ground_truth_object else None) for x in r])
