import warnings, logging
warnings.filterwarnings("ignore"); logging.disable(logging.CRITICAL)
from pyquaternion import Quaternion
from perception_eval.common.label import AutowareLabel, Label
from perception_eval.common.object import DynamicObject
from perception_eval.common.schema import FrameID
from perception_eval.common.shape import Shape, ShapeType
from perception_eval.common.evaluation_task import EvaluationTask
from perception_eval.common.dataset import FrameGroundTruth, get_interpolated_now_frame
from perception_eval.common.transform import HomogeneousMatrix
from perception_eval.evaluation.result.object_result import get_object_results
from perception_eval.evaluation.matching import MatchingMode
from perception_eval.evaluation.matching.objects_filter import get_negative_objects
def obj(x,y,uuid,t,frame=FrameID.BASE_LINK):
    return DynamicObject(t, frame, (x,y,0.0), Quaternion(), Shape(ShapeType.BOUNDING_BOX,(2.0,4.0,1.5)), (0,0,0), 0.9, Label(AutowareLabel.CAR,"car",[]), uuid=uuid, pointcloud_num=10)
I = lambda: [HomogeneousMatrix((0,0,0),(1,0,0,0),FrameID.BASE_LINK,FrameID.MAP)]
frames = [FrameGroundTruth(1000,"1",[obj(1,0,"g1",1000), obj(5,5,"g2",1000), obj(9,9,"g4",1000)], transforms=I()),
          FrameGroundTruth(2000,"2",[obj(2,0,"g1",2000)], transforms=I())]
fr = get_interpolated_now_frame(frames, 1500, 1000)
e = obj(5.1,5,"e",1500,FrameID.MAP)
r = get_object_results(EvaluationTask.TRACKING, [e], fr.objects, transforms=fr.transforms)
print([(x.estimated_object.uuid, x.ground_truth_object.uuid) for x in r])
try:
    tn, fn = get_negative_objects(fr.objects, r, [AutowareLabel.CAR], MatchingMode.PLANEDISTANCE, [2.0]); print("ok fn", [o.uuid for o in fn])
except Exception as ex: print("->", repr(ex))
