import warnings, logging
warnings.filterwarnings("ignore"); logging.disable(logging.CRITICAL)
from pyquaternion import Quaternion
from perception_eval.common.label import AutowareLabel, Label
from perception_eval.common.object import DynamicObject
from perception_eval.common.schema import FrameID
from perception_eval.common.shape import Shape, ShapeType
from perception_eval.common.evaluation_task import EvaluationTask
from perception_eval.evaluation.result.object_result import get_object_results
from perception_eval.evaluation.matching import MatchingMode
from perception_eval.evaluation.matching.objects_filter import get_positive_objects, get_negative_objects
def obj(x,y,uuid): return DynamicObject(100, FrameID.BASE_LINK, (x,y,0.0), Quaternion(), Shape(ShapeType.BOUNDING_BOX,(2.0,4.0,1.5)), (0,0,0), 0.9, Label(AutowareLabel.CAR,"car",[]), uuid=uuid, pointcloud_num=10)
G=[obj(5,0,"g1"), obj(5,0,"g2")]   # two annotations equal under DynamicObject.__eq__
E=[obj(5.1,0,"e1")]
L=[AutowareLabel.CAR]
r=get_object_results(EvaluationTask.DETECTION,E,G,L)
tp,fp=get_positive_objects(r,L,MatchingMode.CENTERDISTANCE,[1.0]); tn,fn=get_negative_objects(G,r,L,MatchingMode.CENTERDISTANCE,[1.0])
print("GT",len(G),"TP",len(tp),"FN",len(fn))
