import Mathlib.Tactic.Linarith
import Mathlib.Tactic.Ring
import Mathlib.Algebra.Order.Field.Basic
import Mathlib.Data.Rat.Defs
import Mathlib.Algebra.Order.Ring.Rat

/-! points are passed in REVERSED index order (last result first), as (precision, recall) -/
abbrev Pt := Rat × Rat

/-- recall of the next-lower index, 0 below index 0 -/
def prevR : List Pt → Rat
  | [] => 0
  | (_, r) :: _ => r

/-- SPEC: all-point interpolated AP  Σ_i (r_i - r_{i-1}) * max_{j ≥ i} p_j, scanning from the last index down.
    `m` = max precision over the indices already scanned (above). -/
def apSpecAux (m : Rat) : List Pt → Rat
  | [] => 0
  | (p, r) :: rest => (r - prevR rest) * max p m + apSpecAux (max p m) rest

def apSpec : List Pt → Rat
  | [] => 0
  | (p, r) :: rest => (r - prevR rest) * p + apSpecAux p rest

/-- CODE: state = stack of recorded (maxPrecision, recall) maxima (head = most recent) ;
    Ap.interpolate_precision_recall_list -/
def scan : List Pt → List Pt → List Pt
  | [], st => st
  | (p, r) :: rest, [] => scan rest [(p, r)]
  | (p, r) :: rest, (m, rm) :: st => if p > m then scan rest ((p, r) :: (m, rm) :: st) else scan rest ((m, rm) :: st)

/-- Σ_{i<k} m_i (ρ_i − ρ_{i+1}) over the stack (head = index k) -/
def partialArea : List Pt → Rat
  | (m, r) :: (m', r') :: st => m' * (r' - r) + partialArea ((m', r') :: st)
  | _ => 0

/-- Ap._calculate_ap : append (last max precision, recall 0) and sum -/
def apCode : List Pt → Rat
  | [] => 0
  | pt :: rest =>
    match scan rest [pt] with
    | [] => 0
    | (m, r) :: st => partialArea ((m, r) :: st) + m * (r - 0)

theorem scan_inv (rest : List Pt) (m rm : Rat) (st : List Pt) :
    ∀ acc : Rat,
    (match scan rest ((m, rm) :: st) with
      | [] => 0
      | (m2, r2) :: st2 => partialArea ((m2, r2) :: st2) + m2 * r2)
    = partialArea ((m, rm) :: st) + m * (rm - prevR rest) + apSpecAux m rest + acc - acc := by
  induction rest generalizing m rm st with
  | nil => intro acc; simp [scan, prevR, apSpecAux]
  | cons hd tl ih =>
    intro acc
    obtain ⟨p, r⟩ := hd
    by_cases h : p > m
    · simp only [scan, h, if_true]
      rw [ih p r ((m, rm) :: st) 0]
      have hmax : max p m = p := max_eq_left (le_of_lt h)
      simp only [partialArea, prevR, apSpecAux, hmax]
      ring
    · simp only [scan, h, if_false]
      rw [ih m rm st 0]
      have hmax : max p m = m := max_eq_right (not_lt.mp h)
      simp only [prevR, apSpecAux, hmax]
      ring

theorem apCode_eq_apSpec (pts : List Pt) : apCode pts = apSpec pts := by
  cases pts with
  | nil => rfl
  | cons pt rest =>
    obtain ⟨p, r⟩ := pt
    have := scan_inv rest p r [] 0
    simp only [apCode, apSpec]
    simp only [sub_zero] at *
    rw [this]
    simp [partialArea]
    ring

#print axioms apCode_eq_apSpec
