import math, warnings, logging, tempfile, copy
warnings.filterwarnings("ignore")
logging.disable(logging.CRITICAL)
import numpy as np
from pyquaternion import Quaternion
from perception_eval.common.label import AutowareLabel, Label
from perception_eval.common.object import DynamicObject
from perception_eval.common.schema import FrameID
from perception_eval.common.shape import Shape, ShapeType
from perception_eval.common.dataset import FrameGroundTruth, get_interpolated_now_frame, get_now_frame
from perception_eval.common.transform import HomogeneousMatrix, TransformDict
from perception_eval.config import PerceptionEvaluationConfig
from perception_eval.manager import PerceptionEvaluationManager
from perception_eval.evaluation.result.perception_frame_config import CriticalObjectFilterConfig, PerceptionPassFailConfig

def obj(x,y,yaw=0.0,label=AutowareLabel.CAR,score=0.9,frame=FrameID.BASE_LINK,uuid="a",t=100):
    q = Quaternion(axis=[0,0,1], angle=yaw)
    return DynamicObject(t, frame, (x,y,0.0), q, Shape(ShapeType.BOUNDING_BOX,(2.0,4.0,1.5)), (0,0,0), score, Label(label, label.value, []), uuid=uuid, pointcloud_num=10)

base = {
    "evaluation_task": "detection", "target_labels": ["car","bicycle","pedestrian","motorbike"],
    "max_x_position": 100.0, "max_y_position": 100.0, "min_point_numbers": [0,0,0,0],
    "label_prefix": "autoware", "merge_similar_labels": False, "allow_matching_unknown": True,
    "center_distance_thresholds": [[1.0,1.0,1.0,1.0]], "plane_distance_thresholds": [2.0], "iou_2d_thresholds":[0.5], "iou_3d_thresholds":[0.5],
}
def mkcfg(d, frame="base_link"):
    return PerceptionEvaluationConfig(dataset_paths=["/repo/perception_eval/test/sample_data"], frame_id=frame, result_root_directory=tempfile.mkdtemp(), evaluation_config_dict=d)

# D7 both kinds
d = dict(base); d.update(max_distance=100.0, min_distance=1.0)
try: mkcfg(d); print("D7: both range kinds ACCEPTED")
except Exception as e: print("D7 rejected", repr(e))
# D8 unknown param
d = dict(base); d.update(foo_thresholds=[0.8])
try: mkcfg(d); print("D8: unknown metric param ACCEPTED")
except Exception as e: print("D8 rejected", repr(e))

# manager
cfg = mkcfg(base)
import time; t0=time.time()
m = PerceptionEvaluationManager(cfg)
print("manager init s", time.time()-t0, "frames", len(m.ground_truth_frames))
# D5: mutation of dataset frame
gts = [obj(10,0,uuid="g1"), obj(50,0,uuid="g2")]
fr = FrameGroundTruth(100, "0", gts, transforms=[HomogeneousMatrix((0,0,0),(1,0,0,0),FrameID.BASE_LINK,FrameID.MAP)])
m.ground_truth_frames = [fr]
ests = [obj(10.2,0,uuid="e1"), obj(50.2,0,uuid="e2")]
def crit(mx): return CriticalObjectFilterConfig(cfg, ["car","bicycle","pedestrian","motorbike"], max_x_position_list=[mx]*4, max_y_position_list=[mx]*4)
pf = PerceptionPassFailConfig(cfg, ["car","bicycle","pedestrian","motorbike"], matching_threshold_list=[2.0]*4)
g = m.get_ground_truth_now_frame(100)
r1 = m.add_frame_result(100, g, ests, crit(30.0), pf)
print("after narrow: dataset objs", len(m.ground_truth_frames[0].objects), "tp", len(r1.pass_fail_result.tp_object_results))
g = m.get_ground_truth_now_frame(100)
r2 = m.add_frame_result(100, g, ests, crit(80.0), pf)
print("wide after narrow: tp", len(r2.pass_fail_result.tp_object_results), "fp", len(r2.pass_fail_result.fp_object_results), "fn", len(r2.pass_fail_result.fn_objects), " (fresh would be tp=2)")

# D2: map frame critical filter
cfgm = mkcfg(dict(base, evaluation_task="detection"), frame="map")
mm = PerceptionEvaluationManager(cfgm)
ego2map = HomogeneousMatrix((1000.0,2000.0,0.0), Quaternion(axis=[0,0,1],angle=0.5), FrameID.BASE_LINK, FrameID.MAP)
def tomap(o):
    p,r = ego2map.transform(o.state.position, o.state.orientation)
    return DynamicObject(o.unix_time, FrameID.MAP, tuple(p), r, o.state.shape, (0,0,0), o.semantic_score, o.semantic_label, uuid=o.uuid, pointcloud_num=10)
gts = [obj(10,0,uuid="g1"), obj(50,0,uuid="g2")]
frm = FrameGroundTruth(100, "0", [tomap(o) for o in gts], transforms=[ego2map])
critm = CriticalObjectFilterConfig(cfgm, ["car","bicycle","pedestrian","motorbike"], max_x_position_list=[30.0]*4, max_y_position_list=[30.0]*4)
pfm = PerceptionPassFailConfig(cfgm, ["car","bicycle","pedestrian","motorbike"], matching_threshold_list=[2.0]*4)
rm = mm.add_frame_result(100, frm, [tomap(o) for o in ests], critm, pfm)
print("map frame narrow filter: results", len(rm.object_results), "gt", len(rm.frame_ground_truth.objects), "tp", len(rm.pass_fail_result.tp_object_results), "AP car", rm.metrics_score.maps[0].aps[0].ap)

# D10 interpolated lookup before first frame
T=[]
frames = [FrameGroundTruth(1000*k, str(k), [obj(k,0,uuid="g", t=1000*k)], transforms=[HomogeneousMatrix((k,0,0),(1,0,0,0),FrameID.BASE_LINK,FrameID.MAP)]) for k in range(1,5)]
print("interp before first:", get_interpolated_now_frame(frames, 990, 75), " now_frame:", get_now_frame(frames, 990, 75))
f = get_interpolated_now_frame(frames, 1500, 1000)
print("interp mid:", f.unix_time, [ (o.frame_id, o.state.position) for o in f.objects])

# D14
td = TransformDict([ego2map])
for key in [("base_link","base_link"), ("BASE_LINK", FrameID.BASE_LINK), (FrameID.MAP,"map"), ("MAP","map")]:
    try: print(key, td.transform(key, (1.0,2.0,3.0)))
    except Exception as e: print(key, "->", repr(e))
try: print(td.transform(("map","BASE_LINK"), (1000.0,2000.0,0.0)))
except Exception as e: print("map->BASE_LINK", repr(e))
