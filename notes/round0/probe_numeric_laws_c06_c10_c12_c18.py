import math, random, warnings, logging
warnings.filterwarnings("ignore"); logging.disable(logging.CRITICAL)
import numpy as np
from pyquaternion import Quaternion
from shapely.geometry import Polygon, Point
from perception_eval.common.label import AutowareLabel, Label
from perception_eval.common.object import DynamicObject
from perception_eval.common.object2d import DynamicObject2D
from perception_eval.common.schema import FrameID, Visibility
from perception_eval.common.shape import Shape, ShapeType
from perception_eval.common.transform import HomogeneousMatrix, TransformDict
from perception_eval.common.point import crop_pointcloud
from perception_eval.evaluation.matching import CenterDistanceMatching, IOU2dMatching, IOU3dMatching, PlaneDistanceMatching
from perception_eval.evaluation.matching.objects_filter import filter_objects
R = random.Random(1)
def obj(x,y,z,yaw,w,l,h,label=AutowareLabel.CAR,score=0.9,frame=FrameID.BASE_LINK,uuid="a",pts=10):
    return DynamicObject(100, frame, (x,y,z), Quaternion(axis=[0,0,1], angle=yaw), Shape(ShapeType.BOUNDING_BOX,(w,l,h)), (0,0,0), score, Label(label,label.value,[]), uuid=uuid, pointcloud_num=pts)
def rnd_obj():
    return obj(R.uniform(-30,30),R.uniform(-30,30),R.uniform(-1,1),R.uniform(-math.pi,math.pi),R.uniform(0.2,5),R.uniform(0.2,10),R.uniform(0.5,3))
def move(o, th, tx, ty):
    c,s=math.cos(th),math.sin(th)
    x,y,z=o.state.position
    q=Quaternion(axis=[0,0,1],angle=th)*o.state.orientation
    return DynamicObject(100,o.frame_id,(c*x-s*y+tx, s*x+c*y+ty, z), q, o.state.shape,(0,0,0),o.semantic_score,o.semantic_label,uuid=o.uuid,pointcloud_num=10)
bad=0
# C06 numeric laws
for k in range(3000):
    a=rnd_obj(); b=rnd_obj()
    if k%3==0: b=obj(a.state.position[0]+R.uniform(-2,2),a.state.position[1]+R.uniform(-2,2),a.state.position[2]+R.uniform(-.5,.5),R.uniform(-math.pi,math.pi),R.uniform(0.2,5),R.uniform(0.2,10),R.uniform(0.5,3))
    i2=IOU2dMatching(a,b).value; i2r=IOU2dMatching(b,a).value
    i3=IOU3dMatching(a,b).value; i3r=IOU3dMatching(b,a).value
    if not (-1e-12<=i2<=1+1e-12 and -1e-12<=i3<=1+1e-12 and abs(i2-i2r)<1e-9 and abs(i3-i3r)<1e-9 and i3<=i2+1e-9):
        bad+=1; print("C06 iou law", i2,i2r,i3,i3r)
    th=R.uniform(-3,3); 
    a2,b2=move(a,th,0,0),move(b,th,0,0)
    for M in (CenterDistanceMatching,IOU2dMatching,IOU3dMatching,PlaneDistanceMatching):
        v1=M(a,b).value; v2=M(a2,b2).value
        if abs(v1-v2)>1e-6:
            bad+=1; print("C06 rot invariance", M.__name__, v1, v2); break
    a3,b3=move(a,th,R.uniform(-50,50),R.uniform(-50,50)),None
    # self
    if abs(IOU2dMatching(a,a).value-1)>1e-9 or abs(IOU3dMatching(a,a).value-1)>1e-9 or PlaneDistanceMatching(a,a).value!=0.0: bad+=1; print("C06 self")
print("C06 bad", bad)
# C12 point in box exactness vs shapely
bad=0
for k in range(400):
    o=rnd_obj(); sc=R.uniform(0.5,2.0)
    pts=np.array([[o.state.position[0]+R.uniform(-8,8), o.state.position[1]+R.uniform(-8,8), o.state.position[2]+R.uniform(-3,3), R.random()] for _ in range(200)])
    ins=o.crop_pointcloud(pts,sc,inside=True); out=o.crop_pointcloud(pts,sc,inside=False)
    fp=o.get_footprint(sc); zlo=o.state.position[2]-o.state.size[2]/2; zhi=o.state.position[2]+o.state.size[2]/2
    exp=[p for p in pts if fp.contains(Point(p[0],p[1])) and zlo<=p[2]<=zhi]
    if len(ins)!=len(exp) or len(ins)+len(out)!=len(pts): bad+=1; print("C12 mismatch", len(ins),len(exp),len(out))
    ins2=o.crop_pointcloud(pts,sc*1.3,inside=True)
    if len(ins2)<len(ins): bad+=1; print("C12 scale mono")
print("C12 bad", bad)
# C18 numeric
bad=0
def rq(): 
    q=Quaternion.random(); return q if R.random()<.5 else -q
for k in range(500):
    A=HomogeneousMatrix((R.uniform(-9,9),R.uniform(-9,9),R.uniform(-9,9)), rq(), FrameID.BASE_LINK, FrameID.MAP)
    B=HomogeneousMatrix((R.uniform(-9,9),R.uniform(-9,9),R.uniform(-9,9)), rq(), FrameID.LIDAR_TOP, FrameID.BASE_LINK)
    p=np.array([R.uniform(-9,9) for _ in range(3)]); r=rq()
    p1,r1=A.transform(p,r); p2,r2=A.inv().transform(p1,r1)
    if np.abs(p2-p).max()>1e-9 or np.abs(r2.rotation_matrix-r.rotation_matrix).max()>1e-9: bad+=1; print("C18 inv")
    C=A.dot(B)
    if C.src!=FrameID.LIDAR_TOP or C.dst!=FrameID.MAP: bad+=1; print("C18 frames")
    pc=C.transform(p); pb=A.transform(B.transform(p))
    if np.abs(pc-pb).max()>1e-9: bad+=1; print("C18 compose")
    C2=B.transform(A)
    if np.abs(C2.matrix-C.matrix).max()>1e-9 or C2.src!=C.src or C2.dst!=C.dst: bad+=1; print("C18 transform(matrix)")
    try: B.dot(A); bad+=1; print("C18 mismatch accepted")
    except ValueError: pass
    td=TransformDict([A])
    q1=td.transform((FrameID.MAP,FrameID.BASE_LINK), p1); 
    if np.abs(q1-p).max()>1e-9: bad+=1; print("C18 dict inverse")
    try: td.transform((FrameID.MAP,FrameID.LIDAR_TOP), p); bad+=1
    except KeyError: pass
print("C18 bad", bad)
# C10 quick laws
bad=0
L=[AutowareLabel.CAR,AutowareLabel.BICYCLE,AutowareLabel.PEDESTRIAN]
for k in range(500):
    objs=[obj(R.uniform(-60,60),R.uniform(-60,60),0,0,2,4,1.5,label=R.choice(L+[AutowareLabel.UNKNOWN,AutowareLabel.FP,AutowareLabel.MOTORBIKE]),score=R.random(),uuid=str(i),pts=R.randint(0,20)) for i in range(12)]
    gt=R.random()<.5
    kw=dict(target_labels=L, max_x_position_list=[R.uniform(10,60) for _ in L], max_y_position_list=[R.uniform(10,60) for _ in L]) if R.random()<.5 else dict(target_labels=L,max_distance_list=[R.uniform(20,70) for _ in L], min_distance_list=[R.uniform(0,15) for _ in L])
    kw.update(confidence_threshold_list=[R.random()*0.5 for _ in L], min_point_numbers=[R.randint(0,8) for _ in L])
    before=list(objs)
    f1=filter_objects(objs,gt,**kw); f2=filter_objects(f1,gt,**kw)
    if [id(o) for o in f1]!=[id(o) for o in f2] or objs!=before: bad+=1; print("C10 idem")
    it=iter(objs)
    if not all(any(o is x for x in it) for o in f1): bad+=1; print("C10 sublist order")
print("C10 bad", bad)
