import Lean.Data.Json
open Lean

def parseRat (s : String) : Option Rat :=
  match s.splitOn "/" with
  | [n] => n.toInt?.map (fun i => (i : Rat))
  | [n, d] => do let a ← n.toInt?; let b ← d.toNat?; pure ((a : Rat) / (b : Rat))
  | _ => none

def handle (j : Json) : Json :=
  match j.getObjValAs? String "op" with
  | .ok "sum" =>
    match j.getObjValAs? (Array String) "xs" with
    | .ok xs =>
      let r := xs.foldl (fun acc s => acc + (parseRat s).getD 0) (0 : Rat)
      Json.mkObj [("ok", true), ("num", toString r.num), ("den", toString r.den)]
    | .error e => Json.mkObj [("ok", false), ("err", e)]
  | _ => Json.mkObj [("ok", false)]

partial def loop (h : IO.FS.Stream) : IO Unit := do
  let line ← h.getLine
  if line.isEmpty then return ()
  match Json.parse line with
  | .ok j => IO.println (handle j).compress
  | .error e => IO.println s!"\{\"ok\":false,\"err\":\"{e}\"}"
  loop h

def main : IO Unit := do loop (← IO.getStdin)
