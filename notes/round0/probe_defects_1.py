import math, warnings, logging
warnings.filterwarnings("ignore")
logging.disable(logging.CRITICAL)
import numpy as np
from pyquaternion import Quaternion
from perception_eval.common.label import AutowareLabel, Label, LabelConverter, TrafficLightLabel
from perception_eval.common.object import DynamicObject
from perception_eval.common.schema import FrameID
from perception_eval.common.shape import Shape, ShapeType
from perception_eval.common.evaluation_task import EvaluationTask
from perception_eval.evaluation.result.object_result import get_object_results, DynamicObjectWithPerceptionResult
from perception_eval.evaluation.metrics.detection.tp_metrics import TPMetricsAph
from perception_eval.common.threshold import set_thresholds

def obj(x,y,yaw,label=AutowareLabel.CAR,score=0.9,frame=FrameID.BASE_LINK,sign=1,uuid="a"):
    q = Quaternion(axis=[0,0,1], angle=yaw)
    if sign<0: q = -q
    return DynamicObject(100, frame, (x,y,0.0), q, Shape(ShapeType.BOUNDING_BOX,(2.0,4.0,1.5)), (0,0,0), score, Label(label, label.value, []), uuid=uuid, pointcloud_num=10)

# D1
try:
    r = get_object_results(EvaluationTask.FP_VALIDATION, [obj(1,1,0)], [])
    print("D1 ok", r)
except Exception as e:
    print("D1 FP_VALIDATION empty GT ->", repr(e))

# D3: heading
for yaw in (0.3, -0.3):
    for sign in (1,-1):
        o = obj(1,1,yaw,sign=sign)
        print("yaw",yaw,"sign",sign,"radians",o.state.orientation.radians, "ypr0", o.state.orientation.yaw_pitch_roll[0], "heading_bev", o.get_heading_bev())
e = obj(1,1,0.3); g = obj(1,1,-0.3)
r = DynamicObjectWithPerceptionResult(e,g)
print("APH weight yaw .3 vs -.3 =", TPMetricsAph().get_value(r), "expected", 1-0.6/math.pi)
print("heading_error est .3 gt -.3:", r.heading_error, " est -.3 gt .3:", DynamicObjectWithPerceptionResult(g,e).heading_error)

# D9 thresholds
for spec,n,nest in [([["a","b"]],2,True), ([[1,[2]]],2,True), ([[1.0,2.0]],2,True), ("ab",2,False), ([[None,None]],2,True)]:
    try:
        print("set_thresholds", spec, n, nest, "->", set_thresholds(spec,n,nest))
    except Exception as ex:
        print("set_thresholds", spec, "->", type(ex).__name__, ex)

# D6
c = LabelConverter(EvaluationTask.CLASSIFICATION2D, False, "traffic_light")
for m in TrafficLightLabel:
    got = c.convert_label(m.value).label
    if got != m: print("TL canonical", m, "->", got)
c = LabelConverter(EvaluationTask.DETECTION, False, "autoware")
for m in AutowareLabel:
    got = c.convert_label(m.value).label
    if got != m: print("AW canonical", m, "->", got)
