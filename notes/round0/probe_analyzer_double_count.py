import warnings, logging, tempfile
warnings.filterwarnings("ignore"); logging.disable(logging.CRITICAL)
from pyquaternion import Quaternion
from perception_eval.common.label import AutowareLabel, Label
from perception_eval.common.object import DynamicObject
from perception_eval.common.schema import FrameID
from perception_eval.common.shape import Shape, ShapeType
from perception_eval.common.dataset import FrameGroundTruth
from perception_eval.common.transform import HomogeneousMatrix
from perception_eval.config import PerceptionEvaluationConfig
from perception_eval.manager import PerceptionEvaluationManager
from perception_eval.evaluation.result.perception_frame_config import CriticalObjectFilterConfig, PerceptionPassFailConfig
from perception_eval.evaluation.result.perception_frame_result import get_object_status
from perception_eval.tool import PerceptionAnalyzer3D
def obj(x,y,uuid,label=AutowareLabel.CAR):
    return DynamicObject(100, FrameID.BASE_LINK, (x,y,0.0), Quaternion(), Shape(ShapeType.BOUNDING_BOX,(2.0,4.0,1.5)), (0,0,0), 0.9, Label(label,label.value,[]), uuid=uuid, pointcloud_num=10)
base = {"evaluation_task": "detection", "target_labels": ["car","bicycle","pedestrian","motorbike"],
    "max_x_position": 100.0, "max_y_position": 100.0, "min_point_numbers": [0,0,0,0],
    "label_prefix": "autoware", "merge_similar_labels": False, "allow_matching_unknown": True,
    "center_distance_thresholds": [[1.0]*4], "plane_distance_thresholds": [2.0], "iou_2d_thresholds":[0.5], "iou_3d_thresholds":[0.5]}
cfg = PerceptionEvaluationConfig(dataset_paths=["/repo/perception_eval/test/sample_data"], frame_id="base_link", result_root_directory=tempfile.mkdtemp(), evaluation_config_dict=base)
m = PerceptionEvaluationManager(cfg)
L=["car","bicycle","pedestrian","motorbike"]
fr = FrameGroundTruth(100,"0",[obj(10,0,"g1"), obj(30,0,"g2"), obj(50,0,"g3")], transforms=[HomogeneousMatrix((0,0,0),(1,0,0,0),FrameID.BASE_LINK,FrameID.MAP)])
ests=[obj(10.1,0,"e1"), obj(34,0,"e2")]   # e2 fails plane-distance 2.0 vs g2 ; g3 unmatched
r = m.add_frame_result(100, fr, ests, CriticalObjectFilterConfig(cfg,L,max_x_position_list=[80.0]*4,max_y_position_list=[80.0]*4), PerceptionPassFailConfig(cfg,L,matching_threshold_list=[2.0]*4))
pf=r.pass_fail_result
print("tp",len(pf.tp_object_results),"fp",len(pf.fp_object_results),"fn",[o.uuid for o in pf.fn_objects],"tn",len(pf.tn_objects),"critical gt",len(r.frame_ground_truth.objects))
a = PerceptionAnalyzer3D(cfg)
a.add(m.frame_results)
print("analyzer num_gt",a.num_ground_truth,"num_est",a.num_estimation,"tp",a.num_tp,"fp",a.num_fp,"fn",a.num_fn,"tn",a.num_tn)
st = get_object_status(m.frame_results)
print({s.uuid:(s.total_frame_nums,s.fp_frame_nums,s.fn_frame_nums) for s in st})
res = a.analyze()
print(res.score[["TP","FP","FN","TN"]] if res.score is not None else None)
print(res.confusion_matrix)
