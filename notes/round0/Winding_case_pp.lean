import Mathlib.Tactic.Linarith
import Mathlib.Tactic.Ring
import Mathlib.Tactic.SplitIfs
import Mathlib.Algebra.Order.Field.Basic
import Mathlib.Algebra.Order.Ring.Rat

def kUp (ys ye y : ℚ) (l : Prop) [Decidable l] : Int := if ys ≤ y ∧ y < ye ∧ l then 1 else 0
def kDn (ys ye y : ℚ) (r : Prop) [Decidable r] : Int := if ye ≤ y ∧ y < ys ∧ r then -1 else 0

/-- sign case α>0, β>0 : A = u*α, B = v*β -/
theorem wn_case_pp (A B α β : ℚ) (hα : 0 < α) (hβ : 0 < β)
    (hb1 : A ≠ α ∨ B < -β ∨ β < B) (hb2 : A ≠ -α ∨ B < -β ∨ β < B)
    (hb3 : B ≠ β ∨ A < -α ∨ α < A) (hb4 : B ≠ -β ∨ A < -α ∨ α < A) :
    kDn (α+β) (β-α) (A+B) (B > β)
    + kDn (β-α) (-α-β) (A+B) (A < -α)
    + kUp (-α-β) (α-β) (A+B) (B > -β)
    + kUp (α-β) (α+β) (A+B) (A < α)
    = if (-α < A ∧ A < α ∧ -β < B ∧ B < β) then 1 else 0 := by
  unfold kUp kDn
  grind
