inductive AL | unknown | car | truck | bus | bicycle | motorbike | pedestrian | animal | fp
deriving DecidableEq, Repr

def AL.value : AL → String
  | .unknown => "unknown" | .car => "car" | .truck => "truck" | .bus => "bus" | .bicycle => "bicycle"
  | .motorbike => "motorbike" | .pedestrian => "pedestrian" | .animal => "animal" | .fp => "false_positive"

def base : List (AL × String) := [
  (.bicycle, "bicycle"), (.bicycle, "vehicle.bicycle"), (.car, "car"), (.car, "vehicle.car"),
  (.car, "vehicle.construction"), (.car, "vehicle.emergency (ambulance & police)"), (.car, "vehicle.police"),
  (.car, "vehicle.fire"), (.car, "vehicle.ambulance"), (.pedestrian, "pedestrian"), (.pedestrian, "stroller"),
  (.pedestrian, "pedestrian.adult"), (.pedestrian, "pedestrian.child"), (.pedestrian, "pedestrian.construction_worker"),
  (.pedestrian, "pedestrian.personal_mobility"), (.pedestrian, "pedestrian.police_officer"), (.pedestrian, "pedestrian.stroller"),
  (.pedestrian, "pedestrian.wheelchair"), (.pedestrian, "construction_worker"), (.unknown, "animal"), (.unknown, "unknown"),
  (.unknown, "movable_object.barrier"), (.unknown, "movable_object.debris"), (.unknown, "movable_object.pushable_pullable"),
  (.unknown, "movable_object.trafficcone"), (.unknown, "movable_object.traffic_cone"), (.unknown, "static_object.bicycle rack"),
  (.unknown, "static_object.bollard"), (.unknown, "forklift"), (.fp, "false_positive")]
def tailNo : List (AL × String) := [(.bus, "bus"), (.bus, "vehicle.bus (bendy & rigid)"), (.bus, "vehicle.bus"), (.truck, "truck"),
  (.truck, "vehicle.truck"), (.truck, "trailer"), (.truck, "vehicle.trailer"), (.motorbike, "motorbike"), (.motorbike, "motorcycle"), (.motorbike, "vehicle.motorcycle")]
def tailYes : List (AL × String) := [(.car, "bus"), (.car, "vehicle.bus (bendy & rigid)"), (.car, "vehicle.bus"), (.car, "truck"),
  (.car, "vehicle.truck"), (.car, "trailer"), (.car, "vehicle.trailer"), (.bicycle, "motorbike"), (.bicycle, "motorcycle"), (.bicycle, "vehicle.motorcycle")]
def tblNo := base ++ tailNo
def tblYes := base ++ tailYes

def lookup (t : List (AL × String)) (s : String) : AL :=
  match t.find? (fun p => p.2 == s) with
  | some p => p.1
  | none => .unknown

def mergeImg : AL → AL | .truck => .car | .bus => .car | .motorbike => .bicycle | l => l

theorem names_nodup : (tblNo.map (·.2)).Nodup := by decide
theorem rel : tblYes = tblNo.map (fun p => (mergeImg p.1, p.2)) := by decide
theorem canon : ∀ p ∈ tblNo, lookup tblNo p.1.value = p.1 := by decide

theorem lookup_map (f : AL → AL) (hf : f .unknown = .unknown) (t : List (AL × String)) (s : String) :
    lookup (t.map (fun p => (f p.1, p.2))) s = f (lookup t s) := by
  induction t with
  | nil => simp [lookup, hf]
  | cons a t ih =>
    unfold lookup at *
    simp only [List.map_cons, List.find?_cons]
    by_cases h : a.2 == s
    · simp [h]
    · simp [h]; exact ih

theorem merge_consistent (s : String) : lookup tblYes s = mergeImg (lookup tblNo s) := by
  rw [rel]; exact lookup_map mergeImg rfl _ _
#print axioms merge_consistent
#print axioms canon
