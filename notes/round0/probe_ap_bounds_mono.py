import math, random, warnings, logging
warnings.filterwarnings("ignore"); logging.disable(logging.CRITICAL)
from pyquaternion import Quaternion
from perception_eval.common.label import AutowareLabel, Label
from perception_eval.common.object import DynamicObject
from perception_eval.common.schema import FrameID
from perception_eval.common.shape import Shape, ShapeType
from perception_eval.common.evaluation_task import EvaluationTask
from perception_eval.evaluation.result.object_result import get_object_results
from perception_eval.evaluation.matching import MatchingMode
from perception_eval.evaluation.matching.objects_filter import divide_objects, divide_objects_to_num, get_positive_objects, get_negative_objects
from perception_eval.evaluation.metrics.detection.map import Map
R=random.Random(3)
L=[AutowareLabel.CAR,AutowareLabel.BICYCLE,AutowareLabel.PEDESTRIAN]
def obj(x,y,yaw,label,score,uuid):
    return DynamicObject(100, FrameID.BASE_LINK, (x,y,0.0), Quaternion(axis=[0,0,1],angle=yaw), Shape(ShapeType.BOUNDING_BOX,(2.0,4.0,1.5)), (0,0,0), score, Label(label,label.value,[]), uuid=uuid, pointcloud_num=10)
bad=0
for k in range(400):
    G=[obj(R.uniform(-20,20),R.uniform(-20,20),R.uniform(-3,3),R.choice(L),1.0,f"g{i}") for i in range(R.randint(0,8))]
    E=[]
    for i in range(R.randint(0,10)):
        if G and R.random()<.7:
            g=R.choice(G); E.append(obj(g.state.position[0]+R.gauss(0,1.5),g.state.position[1]+R.gauss(0,1.5),g.state.orientation.yaw_pitch_roll[0]+R.gauss(0,.5),R.choice(L+[g.semantic_label.label]*3),R.random(),f"e{i}"))
        else: E.append(obj(R.uniform(-20,20),R.uniform(-20,20),0,R.choice(L),R.random(),f"e{i}"))
    res=get_object_results(EvaluationTask.DETECTION,E,G,L)
    rd=divide_objects(res,L); nd=divide_objects_to_num(G,L)
    prev=None
    for t in (0.5,1.0,2.0,4.0):
        m=Map(rd,nd,L,MatchingMode.CENTERDISTANCE,[t]*3)
        vals=[a.ap for a in m.aps]+[a.ap for a in m.aphs]
        for a,h in zip(m.aps,m.aphs):
            if a.ap!=float("inf") and not (-1e-12<=h.ap<=a.ap+1e-12<=1+2e-12): bad+=1; print("C04 bounds",a.ap,h.ap)
        if prev is not None:
            for p,v in zip(prev,vals):
                if p!=float("inf") and v<p-1e-12: bad+=1; print("C08 AP decreased",p,v,t)
        prev=vals
        tp,fp=get_positive_objects(res,L,MatchingMode.CENTERDISTANCE,[t]*3); tn,fn=get_negative_objects(G,res,L,MatchingMode.CENTERDISTANCE,[t]*3)
        if len(tp)+len(fp)!=len(res) or len(tp)+len(fn)!=len(G): bad+=1; print("C03 conservation", len(tp),len(fp),len(fn),len(res),len(G))
print("bad",bad)
