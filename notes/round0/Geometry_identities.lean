import Mathlib.Tactic.Linarith
import Mathlib.Tactic.Ring
import Mathlib.Tactic.FieldSimp
import Mathlib.Tactic.LinearCombination
import Mathlib.Tactic.Positivity
import Mathlib.Data.Rat.Defs
import Mathlib.Algebra.Order.Field.Basic

example (c s x y : ℚ) (h : c^2 + s^2 = 1) : (c*x - s*y)^2 + (s*x + c*y)^2 = x^2 + y^2 := by
  linear_combination (x^2 + y^2) * h

example (I A1 A2 H1 H2 h : ℚ) (hI : 0 ≤ I) (hIA1 : I ≤ A1) (hIA2 : I ≤ A2) (hh0 : 0 ≤ h) (hh1 : h ≤ H1) (hh2 : h ≤ H2)
  (hA1 : 0 < A1) (hA2 : 0 < A2) (hH1 : 0 < H1) (hH2 : 0 < H2) :
  I * h / (A1*H1 + A2*H2 - I*h) ≤ I / (A1 + A2 - I) := by
  have d1 : 0 < A1 + A2 - I := by linarith
  have d2 : 0 < A1*H1 + A2*H2 - I*h := by nlinarith [mul_le_mul hIA1 hh1 hh0 (le_of_lt hA1)]
  rw [div_le_div_iff₀ d2 d1]
  nlinarith [mul_nonneg hI (mul_nonneg (sub_nonneg.2 hh1) (le_of_lt hA1)), mul_nonneg hI (mul_nonneg (sub_nonneg.2 hh2) (le_of_lt hA2)), mul_nonneg hI hh0, mul_nonneg (mul_nonneg hI hI) hh0]
