/-! Blocking-pair theorem prototype for the greedy matcher (core Lean only). -/
abbrev Score := Option Rat

structure Tbl where
  score : Nat → Nat → Score
  valid : Nat → Nat → Bool
  maximize : Bool

def better (mx : Bool) (a b : Rat) : Bool := if mx then decide (b < a) else decide (a < b)

theorem better_irrefl (mx : Bool) (a : Rat) : better mx a a = false := by
  unfold better; cases mx <;> simp
theorem better_asymm (mx : Bool) (a b : Rat) (h : better mx a b = true) : better mx b a = false := by
  unfold better at *; cases mx <;> simp at * <;> grind
theorem better_trans' (mx : Bool) (x c d : Rat) (h1 : better mx x c = true) (h2 : better mx d c = false) :
    better mx x d = true := by
  unfold better at *; cases mx <;> simp at * <;> grind

def cands (t : Tbl) (stage1 : Bool) (es gs : List Nat) : List (Nat × Nat × Rat) :=
  es.flatMap fun i => gs.filterMap fun j =>
    match t.score i j with
    | none => none
    | some s => if stage1 && !(t.valid i j) then none else some (i, j, s)

def argBest (mx : Bool) : List (Nat × Nat × Rat) → Option (Nat × Nat × Rat)
  | [] => none
  | c :: cs => match argBest mx cs with
    | none => some c
    | some d => if better mx d.2.2 c.2.2 then some d else some c

theorem argBest_none (mx : Bool) (l) (h : argBest mx l = none) : l = [] := by
  cases l with
  | nil => rfl
  | cons a as => simp only [argBest] at h; split at h <;> (try split at h) <;> simp at h

theorem argBest_mem (mx : Bool) (l : List (Nat × Nat × Rat)) (c) (h : argBest mx l = some c) : c ∈ l := by
  induction l generalizing c with
  | nil => simp [argBest] at h
  | cons a as ih =>
    simp only [argBest] at h
    split at h
    · simp at h; simp [h]
    · rename_i d hd
      split at h
      · simp at h; subst h; exact List.mem_cons_of_mem _ (ih d hd)
      · simp at h; simp [h]

theorem argBest_opt (mx : Bool) (l : List (Nat × Nat × Rat)) (c) (h : argBest mx l = some c) :
    ∀ x ∈ l, better mx x.2.2 c.2.2 = false := by
  induction l generalizing c with
  | nil => simp [argBest] at h
  | cons a as ih =>
    simp only [argBest] at h
    split at h
    · rename_i hn
      simp at h; subst h
      have := argBest_none mx as hn; subst this
      intro x hx; simp at hx; subst hx; exact better_irrefl _ _
    · rename_i d hd
      have ihd := ih d hd
      split at h
      · rename_i hb
        simp at h; subst h
        intro x hx
        simp at hx
        rcases hx with rfl | hx
        · exact better_asymm _ _ _ hb
        · exact ihd x hx
      · rename_i hb
        simp at h; subst h
        intro x hx
        simp at hx
        rcases hx with rfl | hx
        · exact better_irrefl _ _
        · have hxd := ihd x hx
          cases hxa : better mx x.2.2 a.2.2 with
          | false => rfl
          | true =>
            have hda : better mx d.2.2 a.2.2 = false := by simpa using hb
            have := better_trans' mx _ _ _ hxa hda
            rw [this] at hxd; cases hxd

theorem mem_cands_iff {t : Tbl} {s1 : Bool} {es gs : List Nat} {i j : Nat} {s : Rat} :
    (i, j, s) ∈ cands t s1 es gs ↔ i ∈ es ∧ j ∈ gs ∧ t.score i j = some s ∧ (s1 = true → t.valid i j = true) := by
  simp only [cands, List.mem_flatMap, List.mem_filterMap]
  constructor
  · rintro ⟨i', hi', j', hj', h⟩
    split at h
    · simp at h
    · rename_i s' hs'
      split at h
      · simp at h
      · rename_i hv
        simp at h
        obtain ⟨rfl, rfl, rfl⟩ := h
        refine ⟨hi', hj', hs', ?_⟩
        intro h1; subst h1; simpa using hv
  · rintro ⟨hi, hj, hs, hv⟩
    refine ⟨i, hi, j, hj, ?_⟩
    rw [hs]
    cases s1 with
    | false => simp
    | true => simp [hv rfl]

structure St where
  es : List Nat
  gs : List Nat
  pairs : List (Nat × Nat)

def stage (t : Tbl) (stage1 : Bool) : Nat → St → St
  | 0, st => st
  | fuel+1, st =>
    match argBest t.maximize (cands t stage1 st.es st.gs) with
    | none => st
    | some (i, j, _) => stage t stage1 fuel { es := st.es.erase i, gs := st.gs.erase j, pairs := st.pairs ++ [(i, j)] }

/-- a pair (i,j) with score s is *blocked* by a pair of `ps` satisfying `Q` whose score is not worse -/
def Blocked (t : Tbl) (Q : Nat × Nat → Prop) (ps : List (Nat × Nat)) (i j : Nat) (s : Rat) : Prop :=
  ∃ p ∈ ps, Q p ∧ (p.1 = i ∨ p.2 = j) ∧ ∃ s', t.score p.1 p.2 = some s' ∧ better t.maximize s s' = false

theorem Blocked.mono {t Q ps ps' i j s} (h : Blocked t Q ps i j s) (hsub : ∀ p ∈ ps, p ∈ ps') : Blocked t Q ps' i j s := by
  obtain ⟨p, hp, rest⟩ := h; exact ⟨p, hsub p hp, rest⟩

/-- invariant of one stage: every candidate pair (w.r.t. the stage's filter) is still available or blocked -/
def StageInv (t : Tbl) (s1 : Bool) (Q : Nat × Nat → Prop) (C : Nat → Nat → Rat → Prop) (st : St) : Prop :=
  ∀ i j s, C i j s → t.score i j = some s → (s1 = true → t.valid i j = true) →
    (i ∈ st.es ∧ j ∈ st.gs) ∨ Blocked t Q st.pairs i j s

theorem stage_preserves (t : Tbl) (s1 : Bool) (Q : Nat × Nat → Prop) (C)
    (hQ : ∀ i j, t.score i j ≠ none → (s1 = true → t.valid i j = true) → Q (i, j))
    (fuel : Nat) (st : St) (h : StageInv t s1 Q C st) : StageInv t s1 Q C (stage t s1 fuel st) := by
  induction fuel generalizing st with
  | zero => simpa [stage]
  | succ n ih =>
    simp only [stage]
    split
    · exact h
    · rename_i i0 j0 s0 hb
      apply ih
      have hm := (mem_cands_iff.1 (argBest_mem _ _ _ hb))
      have hopt := argBest_opt _ _ _ hb
      intro i j s hC hs hv
      rcases h i j s hC hs hv with ⟨hi, hj⟩ | hbl
      · by_cases hii : i = i0
        · right
          refine ⟨(i0, j0), by simp, hQ i0 j0 (by simp [hm.2.2.1]) hm.2.2.2, Or.inl hii.symm, s0, hm.2.2.1, ?_⟩
          exact hopt (i, j, s) (mem_cands_iff.2 ⟨hi, hj, hs, hv⟩)
        · by_cases hjj : j = j0
          · right
            refine ⟨(i0, j0), by simp, hQ i0 j0 (by simp [hm.2.2.1]) hm.2.2.2, Or.inr hjj.symm, s0, hm.2.2.1, ?_⟩
            exact hopt (i, j, s) (mem_cands_iff.2 ⟨hi, hj, hs, hv⟩)
          · left
            exact ⟨(List.mem_erase_of_ne hii).2 hi, (List.mem_erase_of_ne hjj).2 hj⟩
      · right; exact hbl.mono (fun p hp => by simp [hp])

/-- when the stage stops, no candidate is available (given enough fuel) -/
theorem stage_done (t : Tbl) (s1 : Bool) (fuel : Nat) (st : St) (hnd : st.es.Nodup) (hf : st.es.length ≤ fuel) :
    cands t s1 (stage t s1 fuel st).es (stage t s1 fuel st).gs = [] := by
  induction fuel generalizing st with
  | zero =>
    have : st.es = [] := List.eq_nil_of_length_eq_zero (Nat.le_zero.1 hf)
    simp [stage, cands, this]
  | succ n ih =>
    simp only [stage]
    split
    · rename_i hb; exact argBest_none _ _ hb
    · rename_i i0 j0 s0 hb
      have hm := (mem_cands_iff.1 (argBest_mem _ _ _ hb))
      apply ih
      · exact hnd.erase _
      · simp only [List.length_erase_of_mem hm.1]
        have : 0 < st.es.length := List.length_pos_of_mem hm.1
        omega

/-- C02 (compatible part), for the stage-1 run started from the full index sets -/
theorem no_blocking_compatible (t : Tbl) (nE nG : Nat) (i j : Nat) (s : Rat)
    (hi : i < nE) (hj : j < nG) (hs : t.score i j = some s) (hv : t.valid i j = true) :
    Blocked t (fun p => t.valid p.1 p.2 = true)
      (stage t true nE { es := List.range nE, gs := List.range nG, pairs := [] }).pairs i j s := by
  have hinv : StageInv t true (fun p => t.valid p.1 p.2 = true) (fun i j _ => i < nE ∧ j < nG)
      { es := List.range nE, gs := List.range nG, pairs := [] } := by
    intro i j s hC _ _; left; exact ⟨by simpa using hC.1, by simpa using hC.2⟩
  have hfin := stage_preserves t true (fun p => t.valid p.1 p.2 = true) (fun i j _ => i < nE ∧ j < nG)
    (fun i j _ hv => hv rfl) nE _ hinv
  have hdone := stage_done t true nE { es := List.range nE, gs := List.range nG, pairs := [] }
    List.nodup_range (by simp)
  rcases hfin i j s ⟨hi, hj⟩ hs (fun _ => hv) with ⟨hie, hjg⟩ | hb
  · have : (i, j, s) ∈ cands t true (stage t true nE { es := List.range nE, gs := List.range nG, pairs := [] }).es
        (stage t true nE { es := List.range nE, gs := List.range nG, pairs := [] }).gs :=
      mem_cands_iff.2 ⟨hie, hjg, hs, fun _ => hv⟩
    rw [hdone] at this; cases this
  · exact hb

#print axioms no_blocking_compatible
