import warnings, logging, tempfile
warnings.filterwarnings("ignore"); logging.disable(logging.CRITICAL)
from perception_eval.config import PerceptionEvaluationConfig
base = {"evaluation_task": "detection", "target_labels": ["car","bicycle","pedestrian","motorbike"],
    "max_distance": 100.0, "min_distance": 1.0, "min_point_numbers": [0,0,0,0],
    "label_prefix": "autoware", "merge_similar_labels": False, "allow_matching_unknown": True,
    "center_distance_thresholds": [[1.0]*4], "plane_distance_thresholds": [2.0], "iou_2d_thresholds":[0.5], "iou_3d_thresholds":[0.5]}
def mk(d):
    return PerceptionEvaluationConfig(dataset_paths=["x"], frame_id="base_link", result_root_directory=tempfile.mkdtemp(), evaluation_config_dict=d)
for md in (1.0, [1.0,2.0,3.0,4.0], [1.0], "abc", [1.0,2.0]):
    try:
        c = mk(dict(base, min_distance=md)); print("min_distance", md, "->", c.filtering_params["min_distance_list"])
    except Exception as e: print("min_distance", md, "-> rejected", type(e).__name__)
for md in ([100.0,2.0], "abc"):
    try:
        c = mk(dict(base, max_distance=md)); print("max_distance", md, "->", c.filtering_params["max_distance_list"])
    except Exception as e: print("max_distance", md, "-> rejected", type(e).__name__)
# partial specs
for d in (dict(max_x_position=10.0), dict(max_x_position=10.0, max_y_position=None), dict(max_distance=None)):
    dd = dict(base); dd.pop("max_distance"); dd.pop("min_distance"); dd.update(d)
    try: mk(dd); print(d, "accepted")
    except Exception as e: print(d, "-> rejected", type(e).__name__, e)
# empty thresholds / missing mandatory metrics
dd = dict(base); dd.pop("center_distance_thresholds")
try: c=mk(dd); print("no center thresholds accepted:", c.metrics_config.detection_config.center_distance_thresholds)
except Exception as e: print("rejected", e)
dd = dict(base, evaluation_task="tracking"); dd.pop("min_point_numbers")
try: c=mk(dd); print("tracking w/o min_point_numbers accepted")
except Exception as e: print("rejected", e)
dd = dict(base); dd.pop("label_prefix")
try: c=mk(dd); print("no label_prefix accepted")
except Exception as e: print("no label_prefix rejected", type(e).__name__)
dd = dict(base, evaluation_task="sensing")
try: c=mk(dd); print("sensing accepted by perception config")
except Exception as e: print("sensing rejected", type(e).__name__)
