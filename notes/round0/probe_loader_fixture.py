import json, warnings, logging, numpy as np
warnings.filterwarnings("ignore"); logging.disable(logging.CRITICAL)
from perception_eval.common.dataset import load_all_datasets
from perception_eval.common.evaluation_task import EvaluationTask
from perception_eval.common.label import LabelConverter
from perception_eval.common.schema import FrameID
D="/repo/perception_eval/test/sample_data"
ann=json.load(open(D+"/annotation/sample_annotation.json")); samp=json.load(open(D+"/annotation/sample.json")); ego=json.load(open(D+"/annotation/ego_pose.json"))
for task in (EvaluationTask.DETECTION, EvaluationTask.TRACKING, EvaluationTask.SENSING):
  for fid in (FrameID.BASE_LINK, FrameID.MAP):
    conv=LabelConverter(task, False, "autoware")
    try:
        fr=load_all_datasets([D], task, conv, fid)
    except Exception as e:
        print(task, fid, "ERR", repr(e)); continue
    f=fr[0]; o=f.objects[0]
    print(task.value, fid.value, "frames",len(fr),"t",f.unix_time==samp[0]["timestamp"],"nobj",len(f.objects),"uuid ok",o.uuid==ann[0]["instance_token"],"label",o.semantic_label.label,"attrs",o.semantic_label.attributes,"size",o.state.size,"pts",o.pointcloud_num,"vis",repr(o.visibility),"vel",o.state.velocity, "tracked", None if o.tracked_path is None else len(o.tracked_path))
    if fid==FrameID.MAP:
        print("   map pos", o.state.position, ann[0]["translation"], "rot", o.state.orientation, ann[0]["rotation"])
    else:
        p,r=f.transforms.transform((FrameID.BASE_LINK,FrameID.MAP), o.state.position, o.state.orientation)
        print("   ego->map pos", p, ann[0]["translation"], "rot", r, ann[0]["rotation"])
    print("   transforms keys", [str(k) for k in f.transforms.keys()][:6], len(f.transforms))
