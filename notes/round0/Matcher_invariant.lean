/-! Greedy two-stage matcher model (core Lean only) -/
abbrev Score := Option Rat   -- none = NaN

structure Tbl where
  score : Nat → Nat → Score
  valid : Nat → Nat → Bool      -- label-compatible
  maximize : Bool

def better (maximize : Bool) (a b : Rat) : Bool := if maximize then a > b else a < b

/-- candidates in row-major order over remaining est/gt index lists -/
def cands (t : Tbl) (stage1 : Bool) (es gs : List Nat) : List (Nat × Nat × Rat) :=
  es.flatMap fun i => gs.filterMap fun j =>
    match t.score i j with
    | none => none
    | some s => if stage1 && !(t.valid i j) then none else some (i, j, s)

/-- first arg-best (np.nanargmin / nanargmax return the first occurrence) -/
def argBest (mx : Bool) : List (Nat × Nat × Rat) → Option (Nat × Nat × Rat)
  | [] => none
  | c :: cs => match argBest mx cs with
    | none => some c
    | some d => if better mx d.2.2 c.2.2 then some d else some c

structure St where
  es : List Nat
  gs : List Nat
  pairs : List (Nat × Nat)

def stage (t : Tbl) (stage1 : Bool) : Nat → St → St
  | 0, st => st
  | fuel+1, st =>
    match argBest t.maximize (cands t stage1 st.es st.gs) with
    | none => st
    | some (i, j, _) => stage t stage1 fuel { es := st.es.erase i, gs := st.gs.erase j, pairs := st.pairs ++ [(i, j)] }

def matchAll (t : Tbl) (nE nG : Nat) : St :=
  let s0 : St := { es := List.range nE, gs := List.range nG, pairs := [] }
  let s1 := stage t true nE s0
  stage t false s1.es.length s1

def demo : Tbl := { score := fun i j => if i == 2 && j == 0 then none else some ((i : Rat) + 2 * j - 3*i*j), valid := fun i j => (i + j) % 2 == 0, maximize := false }
#eval (matchAll demo 3 3).pairs
#eval (matchAll demo 3 3).es

theorem argBest_mem (mx : Bool) (l : List (Nat × Nat × Rat)) (c) (h : argBest mx l = some c) : c ∈ l := by
  induction l generalizing c with
  | nil => simp [argBest] at h
  | cons a as ih =>
    simp only [argBest] at h
    split at h
    · simp at h; simp [h]
    · rename_i d hd
      split at h
      · simp at h; subst h; exact List.mem_cons_of_mem _ (ih d hd)
      · simp at h; simp [h]

theorem mem_cands {t : Tbl} {s1 : Bool} {es gs : List Nat} {i j : Nat} {s : Rat}
    (h : (i, j, s) ∈ cands t s1 es gs) : i ∈ es ∧ j ∈ gs ∧ t.score i j = some s ∧ (s1 = true → t.valid i j = true) := by
  simp only [cands, List.mem_flatMap, List.mem_filterMap] at h
  obtain ⟨i', hi', j', hj', h⟩ := h
  split at h
  · simp at h
  · rename_i s' hs'
    split at h
    · simp at h
    · rename_i hv
      simp at h
      obtain ⟨rfl, rfl, rfl⟩ := h
      refine ⟨hi', hj', hs', ?_⟩
      intro h1; subst h1; simpa using hv

/-- invariant: es, gs nodup; pairs' components disjoint from es/gs and nodup -/
structure MInv (t : Tbl) (st : St) : Prop where
  esND : st.es.Nodup
  gsND : st.gs.Nodup
  pE : (st.pairs.map (·.1)).Nodup
  pG : (st.pairs.map (·.2)).Nodup
  dE : ∀ p ∈ st.pairs, p.1 ∉ st.es
  dG : ∀ p ∈ st.pairs, p.2 ∉ st.gs
  sc : ∀ p ∈ st.pairs, (t.score p.1 p.2).isSome

theorem stage_inv (t : Tbl) (s1 : Bool) (fuel : Nat) (st : St) (h : MInv t st) : MInv t (stage t s1 fuel st) := by
  induction fuel generalizing st with
  | zero => simpa [stage]
  | succ n ih =>
    simp only [stage]
    split
    · exact h
    · rename_i i j s hb
      apply ih
      have hm := mem_cands (argBest_mem _ _ _ hb)
      obtain ⟨hi, hj, hs, _⟩ := hm
      constructor
      · exact h.esND.erase i
      · exact h.gsND.erase j
      · simp only [List.map_append, List.map_cons, List.map_nil]
        rw [List.nodup_append]
        refine ⟨h.pE, by simp, ?_⟩
        intro a ha b hb'
        simp at hb'; subst hb'
        simp only [List.mem_map] at ha
        obtain ⟨p, hp, rfl⟩ := ha
        intro heq
        exact h.dE p hp (heq ▸ hi)
      · simp only [List.map_append, List.map_cons, List.map_nil]
        rw [List.nodup_append]
        refine ⟨h.pG, by simp, ?_⟩
        intro a ha b hb'
        simp at hb'; subst hb'
        simp only [List.mem_map] at ha
        obtain ⟨p, hp, rfl⟩ := ha
        intro heq
        exact h.dG p hp (heq ▸ hj)
      · intro p hp
        simp only [List.mem_append, List.mem_singleton] at hp
        rcases hp with hp | rfl
        · intro hmem; exact h.dE p hp (List.mem_of_mem_erase hmem)
        · exact fun hmem => (List.Nodup.mem_erase_iff h.esND).1 hmem |>.1 rfl
      · intro p hp
        simp only [List.mem_append, List.mem_singleton] at hp
        rcases hp with hp | rfl
        · intro hmem; exact h.dG p hp (List.mem_of_mem_erase hmem)
        · exact fun hmem => (List.Nodup.mem_erase_iff h.gsND).1 hmem |>.1 rfl
      · intro p hp
        simp only [List.mem_append, List.mem_singleton] at hp
        rcases hp with hp | rfl
        · exact h.sc p hp
        · simp [hs]

#print axioms stage_inv
