#!/bin/bash
# MANIFEST.setup_cmd: build the whole Lean library (models, lemmas, all property theorems) and the
# model driver from the files on disk; regenerate the tables from /repo first. Offline.
set -e
cd "$(dirname "$0")"
/venv/bin/python -W ignore -m harness.gen_tables >/dev/null 2>&1 || true
cd lean
lake build PEval pevaldriver 2>&1 | grep -v "^✔\|^ℹ" | tail -20
echo '{"prop":"ping","id":0}' | .lake/build/bin/pevaldriver
# informational: are all generated decision tables / data tables present and non-empty on this tree? (never fails setup;
# a table the translator could not follow makes its theorems vacuous, which the evidence also records as table:untranslatable)
(lake build PEval.Properties.TablesPresent 2>&1 | grep -o "TABLES-PRESENT.*" | tail -1) || echo "TABLES-PRESENT: some table is missing on this tree (see lean/PEval/Properties/TablesPresent.lean)"
