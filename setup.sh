#!/bin/bash
# MANIFEST.setup_cmd: build the whole Lean library (models, lemmas, all property theorems) and the
# model driver from the files on disk; regenerate the tables from /repo first. Offline.
set -e
cd "$(dirname "$0")"
/venv/bin/python -W ignore -m harness.gen_tables >/dev/null 2>&1 || true
cd lean
lake build PEval pevaldriver 2>&1 | grep -v "^✔\|^ℹ" | tail -20
echo '{"prop":"ping","id":0}' | .lake/build/bin/pevaldriver
